#!/usr/bin/env python3
"""store_seed.py <src seed dir> <dest dir under /verif/seeded> <property> <change> <needs> [detected_by note]
Copies an evaluated seeded change (tools/eval_seed.sh wrote eval.txt) into /verif/seeded."""
import json, os, shutil, sys
src, dst, pid, chg, needs = sys.argv[1:6]
note = sys.argv[6] if len(sys.argv) > 6 else "quick tier as built"
os.makedirs(dst, exist_ok=True)
for f in ["patch.diff", "demo_test.go", "notes.md"]:
    shutil.copy(f"{src}/{f}", f"{dst}/{f}")
ev = open(f"{src}/eval.txt").read().splitlines()
chk = [l for l in ev if l.startswith("check ")]
meta = {"property": pid, "change": chg, "needs_to_manifest": needs,
        "produced_by": "independent sub-agent given only the property text and a scratch worktree",
        "confirmed": {"builds": "build: ok" in ev,
                      "existing_tests_pass_with_change": any("existing tests with change: all ok" in l for l in ev),
                      "demo_fails_with_change": any("demo with change: fails" in l for l in ev),
                      "demo_passes_without_change": any("demo without change: passes" in l for l in ev)},
        "what_was_run": "tools/eval_seed.sh: scratch worktree of /repo HEAD, git apply patch.diff, go build ./..., go test -vet=off -count=1 ./..., demo test with and without the change, then `GOSYM_REPO=<scratch> ./bin/gosym check -property %s` (quick tier)" % pid,
        "detected": any("rc=1" in l and "VIOLATION" in l for l in chk), "detected_by": note, "check_result": chk}
json.dump(meta, open(f"{dst}/meta.json", "w"), indent=1)
print(pid, meta["confirmed"], meta["detected"])
