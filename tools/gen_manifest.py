#!/usr/bin/env python3
"""Regenerates /verif/MANIFEST.json from /verif/checks/*.json and tools/not_applicable.json."""
import json, glob, os
V = '/verif'
props = [json.loads(l) for l in open(f'{V}/properties.jsonl')]
ids = [p['id'] for p in props]
checks = []
claimed = []
for pid in ids:
    f = f'{V}/checks/{pid}.json'
    if not os.path.exists(f):
        continue
    c = json.load(open(f))
    if c.get('disabled'):
        continue
    claimed.append(pid)
    level = c['level']
    hs = ', '.join(h['name'] for h in c['harnesses'])
    text = c.get('level_text') or (
        ("Translation validation by bounded symbolic execution: " if level == 'translation_validation' else "Bounded symbolic model checking: ")
        + "the real Go functions (go/ssa of /repo's working tree, rebuilt on every run) are executed symbolically by gosym; every "
        "obligation is an SMT query (z3) over all values of the symbolic inputs within the stated bounds; unsat = holds for all of them, "
        "sat = concrete counterexample replayed natively with go test before it is reported. Bounds: " + ' | '.join(c.get('bounds', [])))
    note = c.get('level_note') or ("Trusted: " + '; '.join(c.get('trusted', [])) + ". Assumed: " + '; '.join(c.get('assumptions', []))
                                   + ". Outside the claim: " + '; '.join(c.get('outside', [])))
    checks.append({
        "property_id": pid,
        "quick_cmd": f"./bin/gosym check -property {pid} -tier quick",
        "thorough_cmd": f"./bin/gosym check -property {pid} -tier thorough",
        "evidence_file": f"/verif/evidence/{pid}.json",
        "replay_cmd_template": "./bin/gosym replay {path}",
        "engine": "gosym",
        "level_claimed": {"category": level, "text": text, "design_ref": f"DESIGN.md §4 {pid}"},
        "level_note": note,
        "technique": c.get('technique') or "SMT-based bounded symbolic execution of the real code (go/ssa -> SMT-LIB2, z3), harnesses: " + hs,
    })
na_file = f'{V}/tools/not_applicable.json'
na = json.load(open(na_file)) if os.path.exists(na_file) else {}
not_app = []
for pid in ids:
    if pid in claimed:
        continue
    not_app.append({"property_id": pid, "reason": na.get(pid, "no check registered yet (work in progress): the harness for this property has not been built or does not yet run clean on the unchanged tree")})
m = {
    "version": 1,
    "setup_cmd": "cd /verif/engine && GOFLAGS=-mod=mod GOPROXY=off GOSUMDB=off GOTOOLCHAIN=local go build -o /verif/bin/gosym ./cmd/gosym",
    "hooks": {
        "guard": "verif",
        "enable": "harness files carry //go:build verif and are injected into /repo's packages by overlay (go/packages Overlay for the engine, `go test -tags verif -overlay` for native replay); no hook is committed to /repo",
        "baseline_off_cmd": "cd /repo && GOFLAGS=-mod=mod GOPROXY=off go test -vet=off -count=1 ./...",
        "source_commits": [],
        "add_only": True,
    },
    "engines": [{"name": "gosym", "path": "/verif/engine", "serves_properties": claimed,
                 "kind_free_text": "bounded symbolic executor for Go built on go/ssa (interpreter after x/tools go/ssa/interp with symbolic scalars, concrete heap, path forking by re-execution, if-conversion, callee merging), SMT-LIB2 to z3 4.8.12 (incremental) and z3 4.8.12/5.1.0 one-shot race; counterexamples replayed natively"}],
    "checks": checks,
    "not_applicable": not_app,
    "notes": "Every check rebuilds its encoding from /repo's working tree. Exit 0 = all obligations unsat within bounds; 1 = counterexample reproduced natively (VIOLATION line); 2 = inconclusive (INCONCLUSIVE line, never a VIOLATION line). Known findings: /verif/known_findings.json.",
}
json.dump(m, open(f'{V}/MANIFEST.json', 'w'), indent=1)
print("claimed:", claimed)
