#!/usr/bin/env python3
"""apply_thorough_results.py <log of run_thorough_harness.sh>...
For every harness whose thorough run did not end with rc=0 within the cap, the
thorough tier falls back to the quick parameters (only bounds that ran clean are registered)."""
import json, sys, re, copy
changed = []
for log in sys.argv[1:]:
    for l in open(log):
        m = re.match(r'^(C\d\d) (\S+) rc=(\d+)', l)
        if not m:
            continue
        pid, name, rc = m.group(1), m.group(2), int(m.group(3))
        if rc == 0:
            continue
        p = f'/verif/checks/{pid}.json'
        c = json.load(open(p))
        for h in c['harnesses']:
            if h['name'] == name and h.get('thorough') != h.get('quick'):
                if (h.get('quick') or {}).get('skip'):
                    h['thorough'] = {'skip': True}
                else:
                    h['thorough'] = copy.deepcopy(h.get('quick') or {})
                changed.append(f'{pid} {name} rc={rc}')
        json.dump(c, open(p, 'w'), indent=1)
print('\n'.join(changed))
