#!/bin/bash
# Runs the thorough tier of every registered check (no evidence written), with a per-check cap.
cd /verif
cap=${1:-2400}
for id in $(python3 -c "import json;print(' '.join(c['property_id'] for c in json.load(open('MANIFEST.json'))['checks']))"); do
  start=$(date +%s)
  timeout $cap ./bin/gosym check -property $id -tier thorough -noevidence > /tmp/thorough_$id.log 2>&1
  rc=$?
  echo "$id rc=$rc $(( $(date +%s) - start ))s $(grep -v '^VIOLATION' /tmp/thorough_$id.log | tail -1 | cut -c1-160)"
done
