#!/bin/bash
# Runs the quick command of every check registered in MANIFEST.json, one after another.
cd /verif
tier=${1:-quick}
for id in $(python3 -c "import json;print(' '.join(c['property_id'] for c in json.load(open('MANIFEST.json'))['checks']))"); do
  start=$(date +%s)
  ./bin/gosym check -property $id -tier $tier > /tmp/runall_$id.log 2>&1
  rc=$?
  echo "$id rc=$rc $(( $(date +%s) - start ))s $(tail -1 /tmp/runall_$id.log | cut -c1-150)"
done
