#!/bin/bash
# Re-runs the registered quick check of every kept seeded change against a scratch
# worktree with the change applied (never /repo). Expect rc=1 (VIOLATION) for each.
# usage: regress_seeds.sh [seed dirs...]   (default: all of seeded/C* and seeded/round2/C*)
cd /verif
export GOFLAGS=-mod=mod GOPROXY=off GOSUMDB=off GOTOOLCHAIN=local
dirs="$@"
[ -z "$dirs" ] && dirs="$(ls -d seeded/C* seeded/round2/C*)"
for d in $dirs; do
  [ -f $d/patch.diff ] || continue
  id=$(python3 -c "import json;print(json.load(open('$d/meta.json'))['property'])")
  wt=/tmp/regwt/$(echo $d | tr '/' '_')
  rm -rf $wt; git -C /repo worktree prune
  git -C /repo worktree add --detach $wt HEAD -q || continue
  if ! git -C $wt apply /verif/$d/patch.diff; then echo "$d $id PATCH-DOES-NOT-APPLY"; git -C /repo worktree remove --force $wt; continue; fi
  start=$(date +%s)
  GOSYM_REPO=$wt timeout 1500 ./bin/gosym check -property $id -noevidence > /tmp/regress_$(echo $d | tr '/' '_').log 2>&1
  rc=$?
  echo "$d $id rc=$rc $(( $(date +%s) - start ))s $(grep -m1 'counterexample' /tmp/regress_$(echo $d | tr '/' '_').log | cut -c1-140)"
  git -C /repo worktree remove --force $wt
done
