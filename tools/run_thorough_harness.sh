#!/bin/bash
# Runs the thorough tier harness by harness (no evidence written) with a per-harness cap,
# to find thorough bounds that run clean. usage: run_thorough_harness.sh <cap-seconds> <property ids...>
cd /verif
cap=$1; shift
for id in "$@"; do
  for h in $(python3 -c "import json;print(' '.join(h['name'] for h in json.load(open('checks/$id.json'))['harnesses']))"); do
    start=$(date +%s)
    timeout $cap ./bin/gosym check -property $id -tier thorough -only $h -noevidence > /tmp/th_${id}_$h.log 2>&1
    rc=$?
    echo "$id $h rc=$rc $(( $(date +%s) - start ))s $(grep '^harness' /tmp/th_${id}_$h.log | cut -c30-140)"
  done
done
