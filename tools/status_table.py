#!/usr/bin/env python3
"""Regenerates the generated parts of DESIGN.md (between the GENERATED markers):
per-property status table from checks/*.json, evidence/*.json and
known_findings.json, and the seeded-change table from seeded/*/meta.json."""
import json, glob, os, re
V = '/verif'
kf = json.load(open(f'{V}/known_findings.json'))['findings']
rows = []
for p in sorted(glob.glob(f'{V}/checks/C*.json')):
    c = json.load(open(p)); pid = c['property']
    ev = {}
    ep = f'{V}/evidence/{pid}.json'
    if os.path.exists(ep): ev = json.load(open(ep))
    cov = ev.get('coverage', {})
    fixed = [f for f in kf if f['property'] == pid and f['status'] == 'fixed']
    opened = [f for f in kf if f['property'] == pid and f['status'] == 'open']
    rows.append('| %s | %s | %d | %s | %s | %s | %s | %s |' % (
        pid, c.get('level', ''), len(c['harnesses']),
        cov.get('paths_started', ''), cov.get('discharged', ''),
        cov.get('trivially_true_obligations', ''),
        round(ev.get('wall_s', 0)),
        ('%d fixed' % len(fixed) if fixed else '') + (' %d open' % len(opened) if opened else '')))
status = ['| property | level | harnesses | paths (quick) | obligations discharged by the solver | decided by term rewriting | wall s | defects found |',
          '|---|---|---|---|---|---|---|---|'] + rows
seeds = ['| property | seeded change | needs | detected by |', '|---|---|---|---|']
for p in sorted(glob.glob(f'{V}/seeded/C*/meta.json')) + sorted(glob.glob(f'{V}/seeded/round2/C*/meta.json')) + sorted(glob.glob(f'{V}/seeded/round3/C*/meta.json')):
    m = json.load(open(p))
    seeds.append('| %s%s | %s | %s | %s |' % (m['property'], ' (round 2)' if '/round2/' in p else ' (round 3)' if '/round3/' in p else '', m['change'], m['needs_to_manifest'],
                 m['detected_by'] if m['detected'] else '**missed**'))
d = open(f'{V}/DESIGN.md').read()
def put(tag, lines):
    global d
    a, b = f'<!-- GENERATED:{tag} -->', f'<!-- /GENERATED:{tag} -->'
    d = re.sub(re.escape(a) + '.*?' + re.escape(b), lambda m: a + '\n' + '\n'.join(lines) + '\n' + b, d, flags=re.S)
put('status', status); put('seeds', seeds)
open(f'{V}/DESIGN.md', 'w').write(d)
