#!/bin/bash
# eval_seed.sh <seed-dir> <property-id> [extra property ids to run...]
# Confirms a seeded change in a scratch worktree (builds, existing tests pass,
# demo fails with it / passes without) and runs the registered checks against
# the scratch tree (GOSYM_REPO), never touching /repo.
set -u
seed=$1; shift
props="$@"
name=$(basename $seed)
export GOFLAGS=-mod=mod GOPROXY=off GOSUMDB=off GOTOOLCHAIN=local
wt=/tmp/evalwt/$name
rm -rf $wt; git -C /repo worktree prune
git -C /repo worktree add --detach $wt HEAD -q || exit 3
cd $wt
out=$seed/eval.txt; : > $out
if ! git apply $seed/patch.diff 2>>$out; then echo "PATCH-DOES-NOT-APPLY" | tee -a $out; cd /; git -C /repo worktree remove --force $wt; exit 3; fi
go build ./... >>$out 2>&1 && echo "build: ok" >> $out || echo "build: FAILED" >> $out
if go test -vet=off -count=1 ./... >>$out.tests 2>&1; then echo "existing tests with change: all ok" >> $out; else echo "existing tests with change: FAILED" >> $out; fi
dest=$(head -3 $seed/demo_test.go | grep -oE '(internal|pkg|cmd)/[A-Za-z0-9_/]+' | head -1)
dest=${dest%/}
if [ ! -d "$wt/$dest" ]; then dest=$(dirname $dest); fi
cp $seed/demo_test.go $wt/$dest/zz_seed_demo_test.go
if go test -vet=off -count=1 ./$dest/ >>$out.demo1 2>&1; then echo "demo with change: PASSES (unexpected)" >> $out; else echo "demo with change: fails (expected)" >> $out; fi
git apply -R $seed/patch.diff
if go test -vet=off -count=1 ./$dest/ >>$out.demo2 2>&1; then echo "demo without change: passes (expected)" >> $out; else echo "demo without change: FAILS (unexpected)" >> $out; fi
rm -f $wt/$dest/zz_seed_demo_test.go
git apply $seed/patch.diff
cd /verif
for p in $props; do
  start=$(date +%s)
  GOSYM_REPO=$wt timeout 1500 ./bin/gosym check -property $p -noevidence > $seed/check_$p.log 2>&1
  rc=$?
  echo "check $p: rc=$rc ($(( $(date +%s) - start ))s) $(grep -m1 '^VIOLATION' $seed/check_$p.log | sed 's/replay=.*//') $(grep -m1 'counterexample' $seed/check_$p.log | cut -c1-160)" >> $out
done
git -C /repo worktree remove --force $wt
cat $out
