package engine

import (
	"fmt"
	"go/token"
	"go/types"
	"strings"

	"gosym/smt"

	"golang.org/x/tools/go/ssa"
)

// Interp is the interpreter state of one path execution.
type Interp struct {
	prog     *ssa.Program
	globals  map[*ssa.Global]*value
	p        *Path
	x        *Explorer
	top      *frame
	depth    int
	funcs    map[string]int // function -> instructions executed
	bigs     map[*value]*bigval
	initDone bool
}

type deferred struct {
	fn   value
	args []value
	pos  token.Pos
	tail *deferred
}

type frame struct {
	in               *Interp
	caller           *frame
	fn               *ssa.Function
	block, prevBlock *ssa.BasicBlock
	env              map[ssa.Value]value
	locals           []value
	defers           *deferred
	result           value
	panicking        bool
	panicVal         interface{}
	callpos          token.Pos
	skipPhis         bool
}

func (in *Interp) stackString() string {
	var sb strings.Builder
	n := 0
	for fr := in.top; fr != nil && n < 12; fr = fr.caller {
		fmt.Fprintf(&sb, "%s", fr.fn.String())
		if fr.callpos.IsValid() {
			fmt.Fprintf(&sb, " (called at %s)", in.prog.Fset.Position(fr.callpos))
		}
		sb.WriteString("\n")
		n++
	}
	return sb.String()
}

func (fr *frame) get(key ssa.Value) value {
	switch key := key.(type) {
	case nil:
		return nil
	case *ssa.Function:
		return key
	case *ssa.Builtin:
		return key
	case *ssa.Const:
		return fr.in.constValue(key)
	case *ssa.Global:
		if r, ok := fr.in.globals[key]; ok {
			return r
		}
		// lazily create globals of packages whose init was not run; sentinel
		// errors (var ErrX = errors.New(...)) get a distinct non-nil value
		cell := fr.in.zero(deref(key.Type()))
		if types.Identical(deref(key.Type()), types.Universe.Lookup("error").Type()) && strings.HasPrefix(key.Name(), "Err") {
			cell = fr.in.mkError(key.Pkg.Pkg.Path()+"."+key.Name(), nil)
		}
		fr.in.globals[key] = &cell
		return &cell
	}
	if r, ok := fr.env[key]; ok {
		return r
	}
	panic(fmt.Sprintf("get: no value for %T: %v in %s", key, key.Name(), fr.fn))
}

func deref(t types.Type) types.Type {
	if p, ok := t.Underlying().(*types.Pointer); ok {
		return p.Elem()
	}
	panic(fmt.Sprintf("deref: not a pointer: %s", t))
}

func (fr *frame) runDefer(d *deferred) {
	var ok bool
	defer func() {
		if !ok {
			r := recover()
			if ap, isAbort := r.(abortPath); isAbort {
				panic(ap)
			}
			fr.panicking = true
			fr.panicVal = r
		}
	}()
	fr.in.call(fr, d.pos, d.fn, d.args)
	ok = true
}

func (fr *frame) runDefers() {
	for d := fr.defers; d != nil; d = d.tail {
		fr.runDefer(d)
	}
	fr.defers = nil
	if fr.panicking {
		panic(fr.panicVal)
	}
}

func (in *Interp) lookupMethod(typ types.Type, meth *types.Func) *ssa.Function {
	return in.prog.LookupMethod(typ, meth.Pkg(), meth.Name())
}

type continuation int

const (
	kNext continuation = iota
	kReturn
	kJump
)

func (in *Interp) step(fr *frame) {
	in.p.steps++
	if in.p.steps > in.x.Lim.MaxSteps {
		panic(abortPath{"unwind", fmt.Sprintf("step limit %d exceeded in %s", in.x.Lim.MaxSteps, fr.fn)})
	}
}

func (in *Interp) visitInstr(fr *frame, instr ssa.Instruction) continuation {
	in.step(fr)
	switch instr := instr.(type) {
	case *ssa.DebugRef:

	case *ssa.UnOp:
		fr.env[instr] = in.unop(instr, fr.get(instr.X))

	case *ssa.BinOp:
		fr.env[instr] = in.binop(instr.Op, instr.X.Type(), fr.get(instr.X), fr.get(instr.Y))

	case *ssa.Call:
		fn, args := in.prepareCall(fr, &instr.Call)
		fr.env[instr] = in.call(fr, instr.Pos(), fn, args)

	case *ssa.ChangeInterface:
		fr.env[instr] = fr.get(instr.X)

	case *ssa.ChangeType:
		fr.env[instr] = fr.get(instr.X)

	case *ssa.Convert:
		fr.env[instr] = in.conv(instr.Type(), instr.X.Type(), fr.get(instr.X))

	case *ssa.MultiConvert:
		fr.env[instr] = in.conv(instr.Type(), instr.X.Type(), fr.get(instr.X))

	case *ssa.SliceToArrayPointer:
		panic(abortPath{"unsupported", "slice to array pointer"})

	case *ssa.MakeInterface:
		fr.env[instr] = iface{t: instr.X.Type(), v: fr.get(instr.X)}

	case *ssa.Extract:
		fr.env[instr] = fr.get(instr.Tuple).(tuple)[instr.Index]

	case *ssa.Slice:
		fr.env[instr] = in.slice(fr.get(instr.X), fr.get(instr.Low), fr.get(instr.High), fr.get(instr.Max))

	case *ssa.Return:
		switch len(instr.Results) {
		case 0:
		case 1:
			fr.result = fr.get(instr.Results[0])
		default:
			var res []value
			for _, r := range instr.Results {
				res = append(res, fr.get(r))
			}
			fr.result = tuple(res)
		}
		fr.block = nil
		return kReturn

	case *ssa.RunDefers:
		fr.runDefers()

	case *ssa.Panic:
		panic(targetPanic{v: fr.get(instr.X), stack: in.stackString()})

	case *ssa.Send:
		panic(abortPath{"unsupported", "channel send"})

	case *ssa.Store:
		addr := fr.get(instr.Addr).(*value)
		if addr == nil {
			in.rtPanic("invalid memory address or nil pointer dereference")
		}
		store(addr, fr.get(instr.Val))

	case *ssa.If:
		cond := fr.get(instr.Cond)
		succ := 1
		switch c := cond.(type) {
		case bool:
			if c {
				succ = 0
			}
		case sbool:
			if in.ifConvert(fr, c.t) {
				return kJump
			}
			if in.p.decide(c.t) {
				succ = 0
			}
		}
		fr.prevBlock, fr.block = fr.block, fr.block.Succs[succ]
		return kJump

	case *ssa.Jump:
		fr.prevBlock, fr.block = fr.block, fr.block.Succs[0]
		return kJump

	case *ssa.Defer:
		fn, args := in.prepareCall(fr, &instr.Call)
		defers := &fr.defers
		*defers = &deferred{fn: fn, args: args, pos: instr.Pos(), tail: *defers}

	case *ssa.Go:
		panic(abortPath{"unsupported", "go statement"})

	case *ssa.MakeChan:
		panic(abortPath{"unsupported", "make(chan)"})

	case *ssa.Alloc:
		var addr *value
		if instr.Heap {
			addr = new(value)
			fr.env[instr] = addr
		} else {
			addr = fr.env[instr].(*value)
		}
		*addr = in.zero(deref(instr.Type()))

	case *ssa.MakeSlice:
		const maxAlloc = 1 << 16
		c := in.makeLen(fr.get(instr.Cap))
		l := in.makeLen(fr.get(instr.Len))
		if l > c {
			in.rtPanic("makeslice: cap out of range")
		}
		if c > maxAlloc {
			panic(abortPath{"unsupported", fmt.Sprintf("make([]T, %d) exceeds engine allocation bound", c)})
		}
		sl := make([]value, c)
		tElt := instr.Type().Underlying().(*types.Slice).Elem()
		for i := range sl {
			sl[i] = in.zero(tElt)
		}
		fr.env[instr] = sl[:l]

	case *ssa.MakeMap:
		fr.env[instr] = newMap()

	case *ssa.Range:
		fr.env[instr] = in.rangeIter(fr.get(instr.X), instr.X.Type())

	case *ssa.Next:
		fr.env[instr] = fr.get(instr.Iter).(iter).next(in)

	case *ssa.FieldAddr:
		p := fr.get(instr.X).(*value)
		if p == nil {
			in.rtPanic("invalid memory address or nil pointer dereference")
		}
		fr.env[instr] = &(*p).(structure)[instr.Field]

	case *ssa.Field:
		fr.env[instr] = copyVal(fr.get(instr.X).(structure)[instr.Field])

	case *ssa.IndexAddr:
		x := fr.get(instr.X)
		idx := fr.get(instr.Index)
		switch x := x.(type) {
		case []value:
			fr.env[instr] = &x[in.index(idx, len(x))]
		case *value:
			if x == nil {
				in.rtPanic("invalid memory address or nil pointer dereference")
			}
			a := (*x).(array)
			fr.env[instr] = &a[in.index(idx, len(a))]
		default:
			panic(fmt.Sprintf("unexpected x type in IndexAddr: %T", x))
		}

	case *ssa.Index:
		x := fr.get(instr.X)
		idx := fr.get(instr.Index)
		switch x := x.(type) {
		case array:
			fr.env[instr] = copyVal(x[in.index(idx, len(x))])
		case string:
			fr.env[instr] = mkInt(8, false, uint64(x[in.index(idx, len(x))]))
		case *sstr:
			if x.b == nil && x.lazy != nil {
				if iv, ok := idx.(ival); ok && iv.t == nil {
					if pre := x.lazy.literalPrefix(); int(iv.c) < len(pre) {
						fr.env[instr] = mkInt(8, false, uint64(pre[iv.c]))
						break
					}
				}
			}
			b := in.sbytes(x)
			fr.env[instr] = b[in.index(idx, len(b))]
		default:
			panic(fmt.Sprintf("unexpected x type in Index: %T", x))
		}

	case *ssa.Lookup:
		fr.env[instr] = in.lookup(instr, fr.get(instr.X), fr.get(instr.Index))

	case *ssa.MapUpdate:
		m := fr.get(instr.Map).(*gomap)
		kt := instr.Map.Type().Underlying().(*types.Map).Key()
		in.mapInsert(m, kt, fr.get(instr.Key), copyVal(fr.get(instr.Value)))

	case *ssa.TypeAssert:
		fr.env[instr] = in.typeAssert(instr, fr.get(instr.X).(iface))

	case *ssa.MakeClosure:
		var bindings []value
		for _, binding := range instr.Bindings {
			bindings = append(bindings, fr.get(binding))
		}
		fr.env[instr] = &closure{instr.Fn.(*ssa.Function), bindings}

	case *ssa.Phi:
		panic("unreachable: phi")

	case *ssa.Select:
		panic(abortPath{"unsupported", "select"})

	default:
		panic(fmt.Sprintf("unexpected instruction: %T", instr))
	}
	return kNext
}

// makeLen converts a make() length; negative lengths panic, symbolic ones fork.
func (in *Interp) makeLen(v value) int {
	x := v.(ival)
	if x.t == nil {
		var n int64
		if x.signed {
			n = x.sext()
		} else if x.c > 1<<62 {
			n = -1
		} else {
			n = int64(x.c)
		}
		if n < 0 || n > 1<<47 {
			in.rtPanic("makeslice: len out of range")
		}
		return int(n)
	}
	C := in.p.C
	// Go rejects lengths that cannot be allocated; model: anything >= 2^47 panics.
	if x.bits > 47 {
		tooBig := C.Cmp(smt.OpBvUle, C.BVConst(1<<47, int(x.bits)), x.t)
		in.panicIf(tooBig, "makeslice: len out of range")
	} else if x.signed {
		in.panicIf(C.Cmp(smt.OpBvSlt, x.t, C.BVConst(0, int(x.bits))), "makeslice: len out of range")
	}
	return int(in.concInt(x, "make length", 64))
}

func (in *Interp) prepareCall(fr *frame, call *ssa.CallCommon) (fn value, args []value) {
	v := fr.get(call.Value)
	if call.Method == nil {
		fn = v
	} else {
		recv := v.(iface)
		if recv.t == nil {
			in.rtPanic("invalid memory address or nil pointer dereference (method call on nil interface)")
		}
		f := in.lookupMethod(recv.t, call.Method)
		if f == nil {
			panic(fmt.Sprintf("method set for dynamic type %v does not contain %s", recv.t, call.Method))
		}
		fn = f
		args = append(args, recv.v)
	}
	for _, arg := range call.Args {
		args = append(args, copyVal(fr.get(arg)))
	}
	return
}

func (in *Interp) call(caller *frame, callpos token.Pos, fn value, args []value) value {
	switch fn := fn.(type) {
	case *ssa.Function:
		if fn == nil {
			in.rtPanic("call of nil function")
		}
		return in.callSSA(caller, callpos, fn, args, nil)
	case *closure:
		return in.callSSA(caller, callpos, fn.Fn, args, fn.Env)
	case *ssa.Builtin:
		return in.callBuiltin(caller, fn, args)
	}
	panic(fmt.Sprintf("cannot call %T", fn))
}

func (in *Interp) callSSA(caller *frame, callpos token.Pos, fn *ssa.Function, args []value, env []value) value {
	if fn.Parent() == nil {
		name := fn.String()
		if fn.Origin() != nil {
			name = fn.Origin().String()
		}
		if ext := externals[name]; ext != nil {
			fr := &frame{in: in, caller: caller, fn: fn, callpos: callpos}
			in.top = fr
			defer func() { in.top = caller }()
			return ext(in, fr, args)
		}
		if fn.Pkg != nil && fn.Name() == "init" && !initAllowed(fn.Pkg.Pkg.Path()) {
			return nil // initialisers of the standard library are not run
		}
		if fn.Blocks == nil {
			panic(abortPath{"unsupported", "no code for function: " + name})
		}
		if !in.x.allowed(fn) {
			panic(abortPath{"unsupported", "call into non-whitelisted package: " + name})
		}
		if in.x.mergeable(name) && in.p.sub == nil && in.p.noFork == 0 {
			if r, ok := in.mergeCall(caller, callpos, fn, args); ok {
				return r
			}
		}
	}
	return in.callSSABody(caller, callpos, fn, args, env)
}

func (in *Interp) callSSAPlain(caller *frame, callpos token.Pos, fn *ssa.Function, args []value) value {
	return in.callSSABody(caller, callpos, fn, args, nil)
}

func (in *Interp) callSSABody(caller *frame, callpos token.Pos, fn *ssa.Function, args []value, env []value) value {
	if in.depth > 400 {
		panic(abortPath{"unwind", "call depth limit exceeded in " + fn.String()})
	}
	fr := &frame{in: in, caller: caller, fn: fn, callpos: callpos}
	if fn.TypeParams().Len() > 0 && len(fn.TypeArgs()) == 0 {
		panic("generic function body executed: " + fn.String())
	}
	in.depth++
	in.top = fr
	defer func() { in.depth--; in.top = caller }()

	fr.env = make(map[ssa.Value]value)
	fr.block = fn.Blocks[0]
	fr.locals = make([]value, len(fn.Locals))
	for i, l := range fn.Locals {
		fr.locals[i] = in.zero(deref(l.Type()))
		fr.env[l] = &fr.locals[i]
	}
	for i, p := range fn.Params {
		fr.env[p] = args[i]
	}
	for i, fv := range fn.FreeVars {
		fr.env[fv] = env[i]
	}
	for fr.block != nil {
		in.runFrame(fr)
	}
	return fr.result
}

func (in *Interp) runFrame(fr *frame) {
	defer func() {
		if fr.block == nil {
			return // normal return
		}
		r := recover()
		if ap, ok := r.(abortPath); ok {
			panic(ap)
		}
		if _, ok := r.(targetPanic); !ok {
			// interpreter bug or unexpected Go runtime error in the engine itself
			panic(r)
		}
		fr.panicking = true
		fr.panicVal = r
		in.top = fr
		fr.runDefers()
		fr.block = fr.fn.Recover
		if fr.block == nil {
			// recovered in a function without named results: zero result
			fr.result = in.zeroResults(fr.fn)
		}
	}()

	for {
		nonPhis := in.executePhis(fr)
		in.funcs[fr.fn.String()] += len(nonPhis)
		for _, instr := range nonPhis {
			if in.visitInstr(fr, instr) == kReturn {
				return
			}
		}
	}
}

func (in *Interp) zeroResults(fn *ssa.Function) value {
	res := fn.Signature.Results()
	switch res.Len() {
	case 0:
		return nil
	case 1:
		return in.zero(res.At(0).Type())
	}
	return in.zero(res)
}

func (in *Interp) executePhis(fr *frame) []ssa.Instruction {
	skip := fr.skipPhis
	fr.skipPhis = false
	firstNonPhi := -1
	for i, instr := range fr.block.Instrs {
		if _, ok := instr.(*ssa.Phi); !ok {
			firstNonPhi = i
			break
		}
	}
	nonPhis := fr.block.Instrs[firstNonPhi:]
	if firstNonPhi > 0 && !skip {
		phis := fr.block.Instrs[:firstNonPhi]
		predIndex := -1
		for i, p := range fr.block.Preds {
			if p == fr.prevBlock {
				predIndex = i
				break
			}
		}
		tmp := make([]value, len(phis))
		for i, phi := range phis {
			tmp[i] = fr.get(phi.(*ssa.Phi).Edges[predIndex])
		}
		for i, phi := range phis {
			fr.env[phi.(*ssa.Phi)] = tmp[i]
		}
	}
	return nonPhis
}

func (in *Interp) doRecover(caller *frame) value {
	if caller != nil && !caller.panicking && caller.caller != nil && caller.caller.panicking {
		caller.caller.panicking = false
		p := caller.caller.panicVal
		caller.caller.panicVal = nil
		switch p := p.(type) {
		case targetPanic:
			if _, ok := p.v.(iface); ok {
				return p.v
			}
			return iface{t: types.Typ[types.String], v: p.v}
		default:
			panic(fmt.Sprintf("unexpected panic type %T in recover()", p))
		}
	}
	return iface{}
}

// ---- if-conversion
//
// When a branch on a symbolic condition opens an acyclic region of
// side-effect-free blocks that reconverges at one join block, both sides are
// evaluated and the join's phis become ite terms, instead of forking the path.

const ifcMaxBlocks = 12

func pureInstr(fr *frame, instr ssa.Instruction) bool {
	switch instr.(type) {
	case *ssa.BinOp, *ssa.UnOp, *ssa.Convert, *ssa.ChangeType, *ssa.ChangeInterface, *ssa.MakeInterface,
		*ssa.Extract, *ssa.Field, *ssa.FieldAddr, *ssa.Index, *ssa.IndexAddr, *ssa.Slice, *ssa.Lookup,
		*ssa.TypeAssert, *ssa.Phi, *ssa.DebugRef:
		// Anything that would panic or fork while speculating aborts the
		// conversion (see noFork), so these are safe to try.
		return true
	}
	return false
}

func (in *Interp) ifConvert(fr *frame, cond *smt.Term) bool {
	if in.x.NoIfConv {
		return false
	}
	head := fr.block
	// discover region: blocks reachable from head's successors until a common join
	region, join, ok := findRegion(head)
	if !ok {
		return false
	}
	for _, b := range region {
		for _, instr := range b.Instrs {
			switch instr.(type) {
			case *ssa.If, *ssa.Jump:
				continue
			}
			if !pureInstr(fr, instr) {
				return false
			}
		}
	}
	C := in.p.C
	// guards of edges: edge (from,to) -> condition
	type edge struct{ from, to *ssa.BasicBlock }
	edgeG := map[edge]*smt.Term{}
	edgeG[edge{head, head.Succs[0]}] = cond
	if e := (edge{head, head.Succs[1]}); head.Succs[0] == head.Succs[1] {
		edgeG[e] = C.True()
	} else {
		edgeG[e] = C.Not(cond)
	}
	inRegion := map[*ssa.BasicBlock]bool{}
	for _, b := range region {
		inRegion[b] = true
	}
	// region is in topological order (findRegion guarantees)
	saved := map[ssa.Value]value{}
	var defined []ssa.Value
	restore := func() {
		for _, v := range defined {
			if old, ok := saved[v]; ok {
				fr.env[v] = old
			} else {
				delete(fr.env, v)
			}
		}
	}
	phiMerge := func(b *ssa.BasicBlock) bool {
		// compute phis of b from guarded incoming edges
		var phis []*ssa.Phi
		for _, instr := range b.Instrs {
			if phi, ok := instr.(*ssa.Phi); ok {
				phis = append(phis, phi)
			} else {
				break
			}
		}
		vals := make([]value, len(phis))
		for pi, phi := range phis {
			var acc value
			first := true
			for k, pred := range b.Preds {
				g, ok := edgeG[edge{pred, b}]
				if !ok || g.IsFalse() {
					continue
				}
				v := fr.get(phi.Edges[k])
				if first {
					acc, first = v, false
					continue
				}
				m, ok := in.tryIte(g, v, acc)
				if !ok {
					return false
				}
				acc = m
			}
			vals[pi] = acc
		}
		for pi, phi := range phis {
			if old, ok := fr.env[phi]; ok {
				if _, dup := saved[phi]; !dup {
					saved[phi] = old
				}
			}
			defined = append(defined, phi)
			fr.env[phi] = vals[pi]
		}
		return true
	}
	for _, b := range region {
		// block guard
		var gs []*smt.Term
		for _, pred := range b.Preds {
			if g, ok := edgeG[edge{pred, b}]; ok {
				gs = append(gs, g)
			}
		}
		guard := C.Or(gs...)
		if !phiMerge(b) {
			restore()
			return false
		}
		ok := func() (ok bool) {
			in.p.noFork++
			defer func() {
				in.p.noFork--
				if r := recover(); r != nil {
					if ap, isAbort := r.(abortPath); isAbort && ap.kind != "unsupported" && ap.kind != "nofork" {
						panic(r)
					}
					if _, isTP := r.(targetPanic); !isTP {
						if _, isAbort := r.(abortPath); !isAbort {
							panic(r)
						}
					}
					ok = false
				}
			}()
			for _, instr := range b.Instrs {
				switch i := instr.(type) {
				case *ssa.Phi, *ssa.DebugRef:
				case *ssa.If:
					c := in.bterm(fr.get(i.Cond))
					edgeG[edge{b, b.Succs[0]}] = C.And(guard, c)
					if b.Succs[0] == b.Succs[1] {
						edgeG[edge{b, b.Succs[0]}] = guard
					} else {
						edgeG[edge{b, b.Succs[1]}] = C.And(guard, C.Not(c))
					}
				case *ssa.Jump:
					edgeG[edge{b, b.Succs[0]}] = guard
				default:
					v := instr.(ssa.Value)
					if old, ok := fr.env[v]; ok {
						if _, dup := saved[v]; !dup {
							saved[v] = old
						}
					}
					defined = append(defined, v)
					in.step(fr)
					if in.visitInstr(fr, instr) != kNext {
						return false
					}
				}
			}
			return true
		}()
		if !ok {
			restore()
			return false
		}
	}
	// join: merge phis, then continue there with a fake prevBlock handled here
	if !phiMerge(join) {
		restore()
		return false
	}
	in.x.ifConverted++
	// continue execution of join after its phis: emulate by setting block and
	// a marker so that executePhis skips (values already set)
	fr.prevBlock = nil
	fr.block = join
	fr.skipPhis = true
	return true
}

// findRegion finds the acyclic single-entry region opened by the two
// successors of head up to their first common join block. Blocks are returned
// in topological order. All exits of the region must lead to join.
func findRegion(head *ssa.BasicBlock) ([]*ssa.BasicBlock, *ssa.BasicBlock, bool) {
	// candidate joins: blocks reachable from both successors; pick via BFS
	// limited to ifcMaxBlocks.
	reach := func(start *ssa.BasicBlock) map[*ssa.BasicBlock]int {
		dist := map[*ssa.BasicBlock]int{start: 0}
		q := []*ssa.BasicBlock{start}
		for len(q) > 0 && len(dist) < 64 {
			b := q[0]
			q = q[1:]
			for _, s := range b.Succs {
				if _, ok := dist[s]; !ok {
					dist[s] = dist[b] + 1
					q = append(q, s)
				}
			}
		}
		return dist
	}
	r0, r1 := reach(head.Succs[0]), reach(head.Succs[1])
	// joins are tried in order of increasing distance
	var cands []*ssa.BasicBlock
	for b := range r0 {
		if _, ok := r1[b]; ok {
			cands = append(cands, b)
		}
	}
	if len(cands) == 0 {
		return nil, nil, false
	}
	best := func() *ssa.BasicBlock {
		var bb *ssa.BasicBlock
		bd := 1 << 30
		for _, b := range cands {
			d := r0[b] + r1[b]
			if d < bd || (d == bd && b.Index < bb.Index) {
				bb, bd = b, d
			}
		}
		return bb
	}
	for tries := 0; tries < 4 && len(cands) > 0; tries++ {
		join := best()
		if region, ok := regionTo(head, join); ok {
			return region, join, true
		}
		// remove and retry
		for i, b := range cands {
			if b == join {
				cands = append(cands[:i], cands[i+1:]...)
				break
			}
		}
	}
	return nil, nil, false
}

// regionTo collects all blocks on paths head->...->join (exclusive), checks
// they are acyclic, single-entry (all preds in region or head) and only exit to
// join, and returns them topologically sorted.
func regionTo(head, join *ssa.BasicBlock) ([]*ssa.BasicBlock, bool) {
	if join == head {
		return nil, false
	}
	in := map[*ssa.BasicBlock]bool{}
	var order []*ssa.BasicBlock
	state := map[*ssa.BasicBlock]int{} // 1 = visiting, 2 = done
	var visit func(b *ssa.BasicBlock) bool
	visit = func(b *ssa.BasicBlock) bool {
		if b == join {
			return true
		}
		if b == head {
			return false // loop back to the head
		}
		switch state[b] {
		case 1:
			return false // cycle
		case 2:
			return true
		}
		if len(in) >= ifcMaxBlocks {
			return false
		}
		state[b] = 1
		in[b] = true
		if len(b.Succs) == 0 {
			return false // return / panic inside region
		}
		for _, s := range b.Succs {
			if !visit(s) {
				return false
			}
		}
		state[b] = 2
		order = append(order, b) // post-order
		return true
	}
	for _, s := range head.Succs {
		if !visit(s) {
			return nil, false
		}
	}
	for b := range in {
		for _, p := range b.Preds {
			if p != head && !in[p] {
				return nil, false
			}
		}
	}
	for _, p := range join.Preds {
		if p != head && !in[p] {
			// join has other entries: fine only if they are not reachable now; be conservative
			return nil, false
		}
	}
	// reverse post-order = topological
	for i, j := 0, len(order)-1; i < j; i, j = i+1, j-1 {
		order[i], order[j] = order[j], order[i]
	}
	return order, true
}
