package engine

import (
	"math/big"
	"testing"
)

type concScan struct {
	s   string
	acc *big.Int
}

func (o *concScan) n() int                 { return len(o.s) }
func (o *concScan) is(i int, c byte) bool  { return o.s[i] == c }
func (o *concScan) between(i int, lo, hi byte) bool {
	return lo <= o.s[i] && o.s[i] <= hi
}
func (o *concScan) digitBelow(i int, off byte, base int) bool { return int(o.s[i]-off) < base }
func (o *concScan) push(i int, off byte, base int) {
	o.acc.Mul(o.acc, big.NewInt(int64(base)))
	o.acc.Add(o.acc, big.NewInt(int64(o.s[i]-off)))
}

// TestScanModelAgainstMathBig validates the SetString model on every string
// of length 0..4 over an alphabet covering signs, prefixes, separators, digits
// at every base boundary and non-digits, for base 0 and the fixed bases.
func TestScanModelAgainstMathBig(t *testing.T) {
	alpha := []byte("019278afgzAFGZxXbBoO_-+ .")
	var rec func(prefix []byte, depth int)
	n := 0
	check := func(s string) {
		for _, base := range []int{0, 2, 8, 10, 16} {
			o := &concScan{s: s, acc: new(big.Int)}
			ok, neg := scanBigModel(o, base)
			want, wok := new(big.Int).SetString(s, base)
			if ok != wok {
				t.Fatalf("SetString(%q,%d): model ok=%v, math/big ok=%v", s, base, ok, wok)
			}
			if ok {
				got := new(big.Int).Set(o.acc)
				if neg {
					got.Neg(got)
				}
				if got.Cmp(want) != 0 {
					t.Fatalf("SetString(%q,%d): model %v, math/big %v", s, base, got, want)
				}
			}
			n++
		}
	}
	rec = func(prefix []byte, depth int) {
		check(string(prefix))
		if depth == 0 {
			return
		}
		for _, c := range alpha {
			rec(append(prefix[:len(prefix):len(prefix)], c), depth-1)
		}
	}
	rec(nil, 4)
	// longer hand-picked strings
	for _, s := range []string{"0x_1f", "0_17", "1__2", "0b1_0", "-0X7fffffffffffffffff", "+0o777", "00", "-0", "0x", "0_", "08", "1_", "_1", "0b2", "123456789012345678901234567890"} {
		check(s)
	}
	t.Logf("%d comparisons", n)
}
