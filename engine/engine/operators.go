package engine

import (
	"fmt"
	"go/constant"
	"go/token"
	"go/types"
	"math"
	"strings"

	"gosym/smt"

	"golang.org/x/tools/go/ssa"
)

func (in *Interp) constValue(c *ssa.Const) value {
	if c.Value == nil {
		return in.zero(c.Type())
	}
	t, ok := c.Type().Underlying().(*types.Basic)
	if !ok {
		panic(fmt.Sprintf("constValue: %s", c))
	}
	if bits, signed, ok := intKind(t); ok {
		if signed {
			return mkInt(bits, signed, uint64(c.Int64()))
		}
		return mkInt(bits, signed, c.Uint64())
	}
	switch t.Kind() {
	case types.Bool, types.UntypedBool:
		return constant.BoolVal(c.Value)
	case types.Float32:
		return float32(c.Float64())
	case types.Float64, types.UntypedFloat:
		return c.Float64()
	case types.String, types.UntypedString:
		if c.Value.Kind() == constant.String {
			return constant.StringVal(c.Value)
		}
		return string(rune(c.Int64()))
	}
	panic(fmt.Sprintf("constValue: %s", c))
}

// rtPanic raises a Go run-time panic in the target program.
func (in *Interp) rtPanic(msg string) {
	panic(targetPanic{v: "runtime error: " + msg, stack: in.stackString()})
}

// panicIf forks: on the branch where cond holds the target program panics.
func (in *Interp) panicIf(cond *smt.Term, msg string) {
	if cond.IsFalse() {
		return
	}
	if in.p.decide(cond) {
		in.rtPanic(msg)
	}
}

// ---- integer arithmetic

func (in *Interp) intBinop(op token.Token, x, y ival) value {
	bits, signed := x.bits, x.signed
	C := in.p.C
	if x.t == nil && y.t == nil {
		return in.intBinopConc(op, x, y)
	}
	a, b := in.iterm(x), in.iterm(y)
	if op != token.SHL && op != token.SHR && a.S != b.S {
		panic(fmt.Sprintf("intBinop %v: operand widths %d vs %d", op, a.S.W, b.S.W))
	}
	switch op {
	case token.ADD:
		return mkIntTerm(bits, signed, C.Bin(smt.OpBvAdd, a, b))
	case token.SUB:
		return mkIntTerm(bits, signed, C.Bin(smt.OpBvSub, a, b))
	case token.MUL:
		return mkIntTerm(bits, signed, C.Bin(smt.OpBvMul, a, b))
	case token.QUO, token.REM:
		in.panicIf(C.Eq(b, C.BVConst(0, int(bits))), "integer divide by zero")
		var o smt.Op
		switch {
		case op == token.QUO && signed:
			o = smt.OpBvSDiv
		case op == token.QUO:
			o = smt.OpBvUDiv
		case signed:
			o = smt.OpBvSRem
		default:
			o = smt.OpBvURem
		}
		return mkIntTerm(bits, signed, C.Bin(o, a, b))
	case token.AND:
		return mkIntTerm(bits, signed, C.Bin(smt.OpBvAnd, a, b))
	case token.OR:
		return mkIntTerm(bits, signed, C.Bin(smt.OpBvOr, a, b))
	case token.XOR:
		return mkIntTerm(bits, signed, C.Bin(smt.OpBvXor, a, b))
	case token.AND_NOT:
		return mkIntTerm(bits, signed, C.Bin(smt.OpBvAnd, a, C.BvNot(b)))
	case token.SHL, token.SHR:
		amt := in.shiftAmount(y, bits)
		var o smt.Op
		switch {
		case op == token.SHL:
			o = smt.OpBvShl
		case signed:
			o = smt.OpBvAshr
		default:
			o = smt.OpBvLshr
		}
		return mkIntTerm(bits, signed, C.Bin(o, a, amt))
	case token.EQL:
		return mkBool(C.Eq(a, b))
	case token.NEQ:
		return mkBool(C.Not(C.Eq(a, b)))
	case token.LSS:
		if signed {
			return mkBool(C.Cmp(smt.OpBvSlt, a, b))
		}
		return mkBool(C.Cmp(smt.OpBvUlt, a, b))
	case token.LEQ:
		if signed {
			return mkBool(C.Cmp(smt.OpBvSle, a, b))
		}
		return mkBool(C.Cmp(smt.OpBvUle, a, b))
	case token.GTR:
		if signed {
			return mkBool(C.Cmp(smt.OpBvSlt, b, a))
		}
		return mkBool(C.Cmp(smt.OpBvUlt, b, a))
	case token.GEQ:
		if signed {
			return mkBool(C.Cmp(smt.OpBvSle, b, a))
		}
		return mkBool(C.Cmp(smt.OpBvUle, b, a))
	}
	panic(fmt.Sprintf("intBinop: bad op %v", op))
}

// shiftAmount converts a Go shift count to a bit-vector of the width of the
// shifted operand, saturating counts that do not fit.
func (in *Interp) shiftAmount(y ival, bits uint8) *smt.Term {
	C := in.p.C
	s := in.iterm(y)
	if y.signed {
		in.panicIf(C.Cmp(smt.OpBvSlt, s, C.BVConst(0, int(y.bits))), "negative shift amount")
	}
	if int(y.bits) <= int(bits) {
		return C.Zext(s, int(bits)-int(y.bits))
	}
	big := C.Cmp(smt.OpBvUle, C.BVConst(uint64(bits), int(y.bits)), s)
	return C.Ite(big, C.BVConst(uint64(bits), int(bits)), C.Extract(s, int(bits)-1, 0))
}

func (in *Interp) intBinopConc(op token.Token, x, y ival) value {
	bits, signed := x.bits, x.signed
	mk := func(c uint64) ival { return mkInt(bits, signed, c) }
	switch op {
	case token.ADD:
		return mk(x.c + y.c)
	case token.SUB:
		return mk(x.c - y.c)
	case token.MUL:
		return mk(x.c * y.c)
	case token.QUO:
		if y.c == 0 {
			in.rtPanic("integer divide by zero")
		}
		if signed {
			a, b := x.sext(), y.sext()
			if b == -1 {
				return mk(uint64(-a))
			}
			return mk(uint64(a / b))
		}
		return mk(x.c / y.c)
	case token.REM:
		if y.c == 0 {
			in.rtPanic("integer divide by zero")
		}
		if signed {
			a, b := x.sext(), y.sext()
			if b == -1 {
				return mk(0)
			}
			return mk(uint64(a % b))
		}
		return mk(x.c % y.c)
	case token.AND:
		return mk(x.c & y.c)
	case token.OR:
		return mk(x.c | y.c)
	case token.XOR:
		return mk(x.c ^ y.c)
	case token.AND_NOT:
		return mk(x.c &^ y.c)
	case token.SHL:
		if y.signed && y.sext() < 0 {
			in.rtPanic("negative shift amount")
		}
		if y.c >= uint64(bits) {
			return mk(0)
		}
		return mk(x.c << y.c)
	case token.SHR:
		if y.signed && y.sext() < 0 {
			in.rtPanic("negative shift amount")
		}
		if signed {
			s := y.c
			if s >= 64 {
				s = 63
			}
			return mk(uint64(x.sext() >> s))
		}
		if y.c >= uint64(bits) {
			return mk(0)
		}
		return mk(x.c >> y.c)
	case token.EQL:
		return x.c == y.c
	case token.NEQ:
		return x.c != y.c
	case token.LSS:
		if signed {
			return x.sext() < y.sext()
		}
		return x.c < y.c
	case token.LEQ:
		if signed {
			return x.sext() <= y.sext()
		}
		return x.c <= y.c
	case token.GTR:
		if signed {
			return x.sext() > y.sext()
		}
		return x.c > y.c
	case token.GEQ:
		if signed {
			return x.sext() >= y.sext()
		}
		return x.c >= y.c
	}
	panic(fmt.Sprintf("intBinopConc: bad op %v", op))
}

func isBoolVal(v value) bool {
	switch v.(type) {
	case bool, sbool:
		return true
	}
	return false
}

func isStrVal(v value) bool {
	switch v.(type) {
	case string, *sstr:
		return true
	}
	return false
}

func (in *Interp) binop(op token.Token, t types.Type, x, y value) value {
	switch xv := x.(type) {
	case ival:
		return in.intBinop(op, xv, y.(ival))
	case bool, sbool:
		C := in.p.C
		a, b := in.bterm(x), in.bterm(y)
		switch op {
		case token.EQL:
			return mkBool(C.Eq(a, b))
		case token.NEQ:
			return mkBool(C.Not(C.Eq(a, b)))
		case token.AND, token.LAND:
			return mkBool(C.And(a, b))
		case token.OR, token.LOR:
			return mkBool(C.Or(a, b))
		}
	case string, *sstr:
		return in.strBinop(op, x, y)
	case float64:
		yv := y.(float64)
		switch op {
		case token.ADD:
			return xv + yv
		case token.SUB:
			return xv - yv
		case token.MUL:
			return xv * yv
		case token.QUO:
			return xv / yv
		case token.EQL:
			return xv == yv
		case token.NEQ:
			return xv != yv
		case token.LSS:
			return xv < yv
		case token.LEQ:
			return xv <= yv
		case token.GTR:
			return xv > yv
		case token.GEQ:
			return xv >= yv
		}
	case float32:
		yv := y.(float32)
		switch op {
		case token.ADD:
			return xv + yv
		case token.SUB:
			return xv - yv
		case token.MUL:
			return xv * yv
		case token.QUO:
			return xv / yv
		case token.EQL:
			return xv == yv
		case token.NEQ:
			return xv != yv
		case token.LSS:
			return xv < yv
		case token.LEQ:
			return xv <= yv
		case token.GTR:
			return xv > yv
		case token.GEQ:
			return xv >= yv
		}
	}
	switch op {
	case token.EQL:
		return in.equals(t, x, y)
	case token.NEQ:
		return in.not(in.equals(t, x, y))
	}
	panic(fmt.Sprintf("invalid binary op: %T %s %T", x, op, y))
}

func (in *Interp) not(v value) value {
	switch v := v.(type) {
	case bool:
		return !v
	case sbool:
		return mkBool(in.p.C.Not(v.t))
	}
	panic("not: non-bool")
}

func isNilish(v value) bool {
	switch v := v.(type) {
	case *value:
		return v == nil
	case []value:
		return v == nil
	case *gomap:
		return v == nil
	case *ssa.Function:
		return v == nil
	case *closure:
		return v == nil
	case iface:
		return v.t == nil
	case chan value:
		return v == nil
	case nil:
		return true
	case *bigval:
		return v == nil
	}
	return false
}

// equals implements Go's == for values of static type t.
func (in *Interp) equals(t types.Type, x, y value) value {
	C := in.p.C
	switch xv := x.(type) {
	case ival:
		return in.intBinop(token.EQL, xv, y.(ival))
	case bool, sbool:
		return mkBool(C.Eq(in.bterm(x), in.bterm(y)))
	case string, *sstr:
		return in.strEq(x, y)
	case float64:
		return xv == y.(float64)
	case float32:
		return xv == y.(float32)
	case *value:
		if yv, ok := y.(*value); ok {
			return xv == yv
		}
		return xv == nil && isNilish(y)
	case structure:
		yv := y.(structure)
		conds := []*smt.Term{}
		st, _ := t.Underlying().(*types.Struct)
		for i := range xv {
			var ft types.Type
			if st != nil {
				if st.Field(i).Name() == "_" {
					continue
				}
				ft = st.Field(i).Type()
			}
			conds = append(conds, in.bterm(in.equals(ft, xv[i], yv[i])))
		}
		return mkBool(C.And(conds...))
	case array:
		yv := y.(array)
		conds := []*smt.Term{}
		var et types.Type
		if at, ok := t.Underlying().(*types.Array); ok {
			et = at.Elem()
		}
		for i := range xv {
			conds = append(conds, in.bterm(in.equals(et, xv[i], yv[i])))
		}
		return mkBool(C.And(conds...))
	case iface:
		yv, ok := y.(iface)
		if !ok {
			return xv.t == nil && isNilish(y)
		}
		if xv.t == nil || yv.t == nil {
			return xv.t == nil && yv.t == nil
		}
		if !types.Identical(xv.t, yv.t) {
			return false
		}
		return in.equals(xv.t, xv.v, yv.v)
	case *bigval:
		yv, _ := y.(*bigval)
		return xv == yv
	case bvval:
		return mkBool(C.Eq(xv.t, y.(bvval).t))
	}
	// slices, maps, funcs: only comparable with nil
	if isNilish(x) || isNilish(y) {
		return isNilish(x) && isNilish(y)
	}
	panic(targetPanic{v: fmt.Sprintf("runtime error: comparing uncomparable type %T", x), stack: in.stackString()})
}

func (in *Interp) unop(instr *ssa.UnOp, x value) value {
	C := in.p.C
	switch instr.Op {
	case token.ARROW:
		panic(abortPath{"unsupported", "channel receive"})
	case token.SUB:
		switch x := x.(type) {
		case ival:
			if x.t == nil {
				return mkInt(x.bits, x.signed, -x.c)
			}
			return mkIntTerm(x.bits, x.signed, C.BvNeg(x.t))
		case float64:
			return -x
		case float32:
			return -x
		}
	case token.MUL:
		p := x.(*value)
		if p == nil {
			in.rtPanic("invalid memory address or nil pointer dereference")
		}
		return load(nil, p)
	case token.NOT:
		return in.not(x)
	case token.XOR:
		xv := x.(ival)
		if xv.t == nil {
			return mkInt(xv.bits, xv.signed, ^xv.c)
		}
		return mkIntTerm(xv.bits, xv.signed, C.BvNot(xv.t))
	}
	panic(fmt.Sprintf("invalid unary op %s %T", instr.Op, x))
}

// ---- strings

func strBytesConc(s string) []ival {
	b := make([]ival, len(s))
	for i := 0; i < len(s); i++ {
		b[i] = mkInt(8, false, uint64(s[i]))
	}
	return b
}

// sbytes returns the bytes of a string value.
func (in *Interp) sbytes(v value) []ival {
	switch v := v.(type) {
	case string:
		return strBytesConc(v)
	case *sstr:
		if v.b == nil && v.lazy != nil {
			v.b = v.lazy.force(in)
			if v.b == nil {
				v.b = []ival{}
			}
		}
		return v.b
	}
	panic(fmt.Sprintf("sbytes: %T", v))
}

// mkStr boxes bytes as a string value, concretising when possible.
func mkStr(b []ival) value {
	for _, x := range b {
		if x.t != nil {
			return &sstr{b: b}
		}
	}
	var sb strings.Builder
	for _, x := range b {
		sb.WriteByte(byte(x.c))
	}
	return sb.String()
}

func (in *Interp) strLen(v value) int {
	switch v := v.(type) {
	case string:
		return len(v)
	case *sstr:
		return len(in.sbytes(v))
	}
	panic(fmt.Sprintf("strLen: %T", v))
}

// lazyVsConcrete decides equality of an unrendered formatted string with a
// concrete one from the literal prefix alone, when that is possible.
func lazyVsConcrete(x, y value) (bool, bool) {
	l, ok := x.(*sstr)
	if !ok || l.b != nil || l.lazy == nil {
		return false, false
	}
	c, ok := y.(string)
	if !ok {
		return false, false
	}
	pre := l.lazy.literalPrefix()
	if pre == "" {
		return false, false
	}
	if len(c) < len(pre) || c[:len(pre)] != pre {
		return false, true // differ within the literal prefix (or c is shorter)
	}
	return false, false
}

func (in *Interp) strEq(x, y value) value {
	if xs, ok := x.(string); ok {
		if ys, ok := y.(string); ok {
			return xs == ys
		}
	}
	if r, ok := lazyVsConcrete(x, y); ok {
		return r
	}
	if r, ok := lazyVsConcrete(y, x); ok {
		return r
	}
	// two unrendered keys of the same shape: equal iff their numbers are equal
	if lx, ok := x.(*sstr); ok && lx.b == nil && lx.lazy != nil {
		if ly, ok := y.(*sstr); ok && ly.b == nil && ly.lazy != nil {
			px, ax, okx := lx.lazy.keyParts()
			py, ay, oky := ly.lazy.keyParts()
			if okx && oky {
				if px != py {
					// different literal prefixes: strings may still coincide only if one
					// prefix extends the other with digits; be exact only for the simple case
					if !strings.HasPrefix(px, py) && !strings.HasPrefix(py, px) {
						return false
					}
				} else {
					w := int(ax.bits)
					if int(ay.bits) > w {
						w = int(ay.bits)
					}
					C := in.p.C
					return mkBool(C.Eq(C.Resize(in.iterm(ax), w, false), C.Resize(in.iterm(ay), w, false)))
				}
			}
		}
	}
	a, b := in.sbytes(x), in.sbytes(y)
	if len(a) != len(b) {
		return false
	}
	conds := make([]*smt.Term, len(a))
	for i := range a {
		conds[i] = in.p.C.Eq(in.iterm(a[i]), in.iterm(b[i]))
	}
	return mkBool(in.p.C.And(conds...))
}

// strLess builds the lexicographic x < y.
func (in *Interp) strLess(x, y value) value {
	if xs, ok := x.(string); ok {
		if ys, ok := y.(string); ok {
			return xs < ys
		}
	}
	C := in.p.C
	a, b := in.sbytes(x), in.sbytes(y)
	n := len(a)
	if len(b) < n {
		n = len(b)
	}
	// from the end: less_i = a[i]<b[i] || (a[i]==b[i] && less_{i+1})
	res := C.Bool(len(a) < len(b))
	for i := n - 1; i >= 0; i-- {
		ai, bi := in.iterm(a[i]), in.iterm(b[i])
		res = C.Or(C.Cmp(smt.OpBvUlt, ai, bi), C.And(C.Eq(ai, bi), res))
	}
	return mkBool(res)
}

func (in *Interp) strBinop(op token.Token, x, y value) value {
	switch op {
	case token.ADD:
		if xs, ok := x.(string); ok {
			if ys, ok := y.(string); ok {
				return xs + ys
			}
		}
		a, b := in.sbytes(x), in.sbytes(y)
		return mkStr(append(append([]ival(nil), a...), b...))
	case token.EQL:
		return in.strEq(x, y)
	case token.NEQ:
		return in.not(in.strEq(x, y))
	case token.LSS:
		return in.strLess(x, y)
	case token.GTR:
		return in.strLess(y, x)
	case token.LEQ:
		return in.not(in.strLess(y, x))
	case token.GEQ:
		return in.not(in.strLess(x, y))
	}
	panic(fmt.Sprintf("strBinop: bad op %v", op))
}

// ---- indices

// concInt returns a concrete int for v, forking over the feasible values
// (at most max of them) if v is symbolic.
func (in *Interp) concInt(v value, what string, max int) int64 {
	x := v.(ival)
	if x.t == nil {
		if x.signed {
			return x.sext()
		}
		return int64(x.c)
	}
	C := in.p.C
	in.p.flushBatch()
	for n := 0; n < max; n++ {
		// ask the solver for some feasible value
		in.p.nFeasQ++
		var vals []string
		in.p.S.Push()
		r, _ := in.p.S.Check(in.p.X.Lim.FeasMS)
		if r == smt.Sat {
			var err error
			vals, err = in.p.S.Values([]*smt.Term{x.t})
			if err != nil {
				r = smt.Unknown
			}
		}
		in.p.S.Pop()
		if r != smt.Sat {
			// fresh non-incremental solvers
			var why string
			r, vals, why, _, _ = smt.Race(in.p.X.raceSolvers(), in.p.pcond, []*smt.Term{x.t}, in.p.X.Lim.ObligMS)
			if r != smt.Sat {
				panic(abortPath{"unknown", "cannot enumerate values of symbolic " + what + ": " + why})
			}
		}
		c := bigFromHex(vals[0]).Uint64()
		k := mkInt(x.bits, x.signed, c)
		if in.p.decide(C.Eq(x.t, C.BVConst(c, int(x.bits)))) {
			if k.signed {
				return k.sext()
			}
			return int64(k.c)
		}
	}
	panic(abortPath{"unsupported", fmt.Sprintf("symbolic %s has more than %d feasible values", what, max)})
}

// index checks 0 <= idx < n (forking a panic path) and returns a concrete index.
func (in *Interp) index(idx value, n int) int {
	x := idx.(ival)
	if x.t == nil {
		var i int64
		if x.signed {
			i = x.sext()
		} else {
			if x.c > math.MaxInt64 {
				in.rtPanic(fmt.Sprintf("index out of range [%d] with length %d", x.c, n))
			}
			i = int64(x.c)
		}
		if i < 0 || i >= int64(n) {
			in.rtPanic(fmt.Sprintf("index out of range [%d] with length %d", i, n))
		}
		return int(i)
	}
	C := in.p.C
	inb := C.Cmp(smt.OpBvUlt, x.t, C.BVConst(uint64(n), int(x.bits)))
	in.panicIf(C.Not(inb), fmt.Sprintf("index out of range [symbolic] with length %d", n))
	// enumerate
	for k := 0; k < n-1; k++ {
		if in.p.decide(C.Eq(x.t, C.BVConst(uint64(k), int(x.bits)))) {
			return k
		}
	}
	return n - 1
}

func (in *Interp) slice(x, lo, hi, max value) value {
	var Len, Cap int
	switch x := x.(type) {
	case string:
		Len, Cap = len(x), len(x)
	case *sstr:
		Len = len(in.sbytes(x))
		Cap = Len
	case []value:
		Len, Cap = len(x), cap(x)
	case *value:
		if x == nil {
			in.rtPanic("slice of nil array pointer")
		}
		a := (*x).(array)
		Len, Cap = len(a), len(a)
	}
	_, isStr := x.(string)
	if _, ok := x.(*sstr); ok {
		isStr = true
	}
	l, h, m := 0, Len, Cap
	// bounds: 0 <= l <= h <= m <= cap  (for strings h <= len)
	if max != nil {
		m = in.boundIdx(max, Cap, "slice bounds out of range [::%s] with capacity %d")
	}
	if hi != nil {
		lim := m
		if isStr {
			lim = Len
		}
		h = in.boundIdx(hi, lim, "slice bounds out of range [:%s] with capacity %d")
	} else if max != nil && m < Len {
		h = m
	}
	if lo != nil {
		l = in.boundIdx(lo, h, "slice bounds out of range [%s:%d]")
	}
	switch x := x.(type) {
	case string:
		return x[l:h]
	case *sstr:
		return mkStr(in.sbytes(x)[l:h])
	case []value:
		if x == nil && l == 0 && h == 0 {
			return []value(nil)
		}
		return x[l:h:m]
	case *value:
		a := (*x).(array)
		return []value(a)[l:h:m]
	}
	panic(fmt.Sprintf("slice: unexpected X type: %T", x))
}

// boundIdx returns a concrete value of v in [0,lim], forking (panic path when outside).
func (in *Interp) boundIdx(v value, lim int, msg string) int {
	x := v.(ival)
	if x.t == nil {
		var i int64
		if x.signed {
			i = x.sext()
		} else if x.c > math.MaxInt64 {
			i = -1
		} else {
			i = int64(x.c)
		}
		if i < 0 || i > int64(lim) {
			in.rtPanic(fmt.Sprintf(msg, fmt.Sprint(i), lim))
		}
		return int(i)
	}
	C := in.p.C
	ok := C.Cmp(smt.OpBvUle, x.t, C.BVConst(uint64(lim), int(x.bits)))
	in.panicIf(C.Not(ok), fmt.Sprintf(msg, "symbolic", lim))
	for k := 0; k < lim; k++ {
		if in.p.decide(C.Eq(x.t, C.BVConst(uint64(k), int(x.bits)))) {
			return k
		}
	}
	return lim
}

// ---- maps

func (in *Interp) mapFind(m *gomap, kt types.Type, key value) int {
	if m == nil {
		return -1
	}
	if ks, ok := keyString(key); ok {
		// concrete key: direct hit, unless the map holds symbolic keys
		if i, ok := m.idx[ks]; ok {
			return i
		}
		if !m.hasSymKeys() {
			return -1
		}
	}
	// symbolic comparison against every live key
	for i := range m.keys {
		if !m.live[i] {
			continue
		}
		eq := in.equals(kt, m.keys[i], key)
		if in.p.decide(in.bterm(eq)) {
			return i
		}
	}
	return -1
}

func (m *gomap) hasSymKeys() bool {
	return len(m.idx) != m.n
}

func (in *Interp) mapInsert(m *gomap, kt types.Type, key, val value) {
	if m == nil {
		in.rtPanic("assignment to entry in nil map")
	}
	if i := in.mapFind(m, kt, key); i >= 0 {
		m.vals[i] = val
		return
	}
	m.keys = append(m.keys, key)
	m.vals = append(m.vals, val)
	m.live = append(m.live, true)
	if ks, ok := keyString(key); ok {
		m.idx[ks] = len(m.keys) - 1
	}
	m.n++
}

func (in *Interp) mapDelete(m *gomap, kt types.Type, key value) {
	if i := in.mapFind(m, kt, key); i >= 0 {
		m.live[i] = false
		if ks, ok := keyString(m.keys[i]); ok {
			delete(m.idx, ks)
		}
		m.n--
	}
}

func (in *Interp) lookup(instr *ssa.Lookup, x, idx value) value {
	switch x := x.(type) {
	case *gomap:
		mt := instr.X.Type().Underlying().(*types.Map)
		i := in.mapFind(x, mt.Key(), idx)
		var v value
		if i >= 0 {
			v = copyVal(x.vals[i])
		} else {
			v = in.zero(mt.Elem())
		}
		if instr.CommaOk {
			return tuple{v, i >= 0}
		}
		return v
	case string:
		return mkInt(8, false, uint64(x[in.index(idx, len(x))]))
	case *sstr:
		b := in.sbytes(x)
		return b[in.index(idx, len(b))]
	}
	panic(fmt.Sprintf("unexpected x type in Lookup: %T", x))
}

type mapIter struct {
	m *gomap
	i int
}

func (it *mapIter) next(in *Interp) tuple {
	for it.m != nil && it.i < len(it.m.keys) {
		i := it.i
		it.i++
		if it.m.live[i] {
			return tuple{true, it.m.keys[i], copyVal(it.m.vals[i])}
		}
	}
	return tuple{false, nil, nil}
}

type strIter struct {
	b []ival
	i int
}

func (it *strIter) next(in *Interp) tuple {
	if it.i >= len(it.b) {
		return tuple{false, nil, nil}
	}
	i := it.i
	c := it.b[i]
	if c.t != nil {
		// symbolic byte: ASCII is assumed by the harness; fork otherwise
		C := in.p.C
		if in.p.decide(C.Cmp(smt.OpBvUle, C.BVConst(0x80, 8), c.t)) {
			panic(abortPath{"unsupported", "range over string with symbolic non-ASCII byte"})
		}
		it.i++
		return tuple{true, goInt(i), mkIntTerm(32, true, C.Zext(c.t, 24))}
	}
	if c.c < 0x80 {
		it.i++
		return tuple{true, goInt(i), mkInt(32, true, c.c)}
	}
	// decode concrete multi-byte rune
	var buf []byte
	for j := i; j < len(it.b) && j < i+4 && it.b[j].t == nil; j++ {
		buf = append(buf, byte(it.b[j].c))
	}
	r, n := decodeRune(buf)
	it.i += n
	return tuple{true, goInt(i), mkInt(32, true, uint64(r))}
}

func (in *Interp) rangeIter(x value, t types.Type) iter {
	switch x := x.(type) {
	case *gomap:
		return &mapIter{m: x}
	case string:
		return &strIter{b: strBytesConc(x)}
	case *sstr:
		return &strIter{b: in.sbytes(x)}
	}
	panic(fmt.Sprintf("cannot range over %T", x))
}

// ---- conversions

func (in *Interp) conv(tDst, tSrc types.Type, x value) value {
	ut := tDst.Underlying()
	us := tSrc.Underlying()
	C := in.p.C
	switch us := us.(type) {
	case *types.Pointer, *types.Signature, *types.Struct, *types.Array, *types.Map, *types.Interface, *types.Chan:
		return x
	case *types.Slice:
		switch ud := ut.(type) {
		case *types.Slice:
			return x
		case *types.Basic: // []byte / []rune -> string
			if ud.Kind() != types.String {
				break
			}
			xs := x.([]value)
			eb, _ := us.Elem().Underlying().(*types.Basic)
			if eb != nil && eb.Kind() == types.Uint8 {
				b := make([]ival, len(xs))
				for i, e := range xs {
					b[i] = e.(ival)
				}
				return mkStr(b)
			}
			var sb strings.Builder
			for _, e := range xs {
				ev := e.(ival)
				if ev.t != nil {
					panic(abortPath{"unsupported", "[]rune with symbolic element to string"})
				}
				sb.WriteRune(rune(ev.sext()))
			}
			return sb.String()
		}
	case *types.Basic:
		ud, ok := ut.(*types.Basic)
		if !ok {
			// string -> []byte / []rune
			if sl, ok := ut.(*types.Slice); ok && us.Info()&types.IsString != 0 {
				eb := sl.Elem().Underlying().(*types.Basic)
				if eb.Kind() == types.Uint8 {
					b := in.sbytes(x)
					res := make([]value, len(b))
					for i := range b {
						res[i] = b[i]
					}
					return res
				}
				s, ok := x.(string)
				if !ok {
					b := in.sbytes(x)
					res := make([]value, len(b))
					for i := range b {
						if b[i].t != nil {
							res[i] = mkIntTerm(32, true, C.Zext(b[i].t, 24))
						} else {
							res[i] = mkInt(32, true, b[i].c)
						}
					}
					return res
				}
				var res []value
				for _, r := range s {
					res = append(res, mkInt(32, true, uint64(r)))
				}
				return res
			}
			break
		}
		if us.Info()&types.IsString != 0 && ud.Info()&types.IsString != 0 {
			return x
		}
		if us.Kind() == types.UnsafePointer || ud.Kind() == types.UnsafePointer {
			return x
		}
		if sb, ss, ok := intKind(us); ok {
			xv := x.(ival)
			_ = sb
			if db, ds, ok := intKind(ud); ok {
				if xv.t == nil {
					if ss {
						return mkInt(db, ds, uint64(xv.sext()))
					}
					return mkInt(db, ds, xv.c)
				}
				return mkIntTerm(db, ds, C.Resize(xv.t, int(db), ss))
			}
			switch ud.Kind() {
			case types.Float64, types.UntypedFloat:
				if xv.t != nil {
					panic(abortPath{"unsupported", "symbolic int to float"})
				}
				if ss {
					return float64(xv.sext())
				}
				return float64(xv.c)
			case types.Float32:
				if xv.t != nil {
					panic(abortPath{"unsupported", "symbolic int to float"})
				}
				if ss {
					return float32(xv.sext())
				}
				return float32(xv.c)
			case types.String:
				if xv.t != nil {
					panic(abortPath{"unsupported", "symbolic rune to string"})
				}
				return string(rune(xv.sext()))
			}
		}
		var f float64
		isF := false
		switch xf := x.(type) {
		case float64:
			f, isF = xf, true
		case float32:
			f, isF = float64(xf), true
		}
		if isF {
			if db, ds, ok := intKind(ud); ok {
				if ds {
					return mkInt(db, ds, uint64(int64(f)))
				}
				return mkInt(db, ds, uint64(f))
			}
			switch ud.Kind() {
			case types.Float64, types.UntypedFloat:
				return f
			case types.Float32:
				return float32(f)
			}
		}
	}
	panic(fmt.Sprintf("unsupported conversion: %s -> %s, dynamic type %T", tSrc, tDst, x))
}

// ---- type assertions

func (in *Interp) typeAssert(instr *ssa.TypeAssert, itf iface) value {
	var v value
	err := ""
	if itf.t == nil {
		err = fmt.Sprintf("interface conversion: interface is nil, not %s", instr.AssertedType)
	} else if idst, ok := instr.AssertedType.Underlying().(*types.Interface); ok {
		v = itf
		if meth, _ := types.MissingMethod(itf.t, idst, true); meth != nil {
			err = fmt.Sprintf("interface conversion: %v is not %v: missing method %s", itf.t, idst, meth.Name())
		}
	} else if types.Identical(itf.t, instr.AssertedType) {
		v = itf.v
	} else {
		err = fmt.Sprintf("interface conversion: interface is %s, not %s", itf.t, instr.AssertedType)
	}
	if err != "" {
		if !instr.CommaOk {
			panic(targetPanic{v: "runtime error: " + err, stack: in.stackString()})
		}
		return tuple{in.zero(instr.AssertedType), false}
	}
	if instr.CommaOk {
		return tuple{v, true}
	}
	return v
}

// ---- builtins

func (in *Interp) callBuiltin(caller *frame, fn *ssa.Builtin, args []value) value {
	switch fn.Name() {
	case "append":
		if len(args) == 1 {
			return args[0]
		}
		var src []value
		if s, ok := args[1].([]value); ok {
			src = s
		} else {
			for _, b := range in.sbytes(args[1]) {
				src = append(src, b)
			}
		}
		dst := args[0].([]value)
		if len(src) == 0 {
			return dst
		}
		cp := make([]value, len(src))
		for i := range src {
			cp[i] = copyVal(src[i])
		}
		return append(dst, cp...)
	case "copy":
		dst := args[0].([]value)
		var src []value
		if s, ok := args[1].([]value); ok {
			src = s
		} else {
			for _, b := range in.sbytes(args[1]) {
				src = append(src, b)
			}
		}
		n := len(src)
		if len(dst) < n {
			n = len(dst)
		}
		tmp := make([]value, n)
		for i := 0; i < n; i++ {
			tmp[i] = copyVal(src[i])
		}
		copy(dst, tmp)
		return goInt(n)
	case "close":
		return nil
	case "delete":
		mt := fn.Type().(*types.Signature).Params().At(0).Type().Underlying().(*types.Map)
		in.mapDelete(args[0].(*gomap), mt.Key(), args[1])
		return nil
	case "print", "println":
		return nil
	case "len":
		switch x := args[0].(type) {
		case string:
			return goInt(len(x))
		case *sstr:
			return goInt(len(in.sbytes(x)))
		case array:
			return goInt(len(x))
		case *value:
			return goInt(len((*x).(array)))
		case []value:
			return goInt(len(x))
		case *gomap:
			return goInt(x.length())
		case chan value:
			return goInt(0)
		}
		panic(fmt.Sprintf("len: illegal operand: %T", args[0]))
	case "cap":
		switch x := args[0].(type) {
		case array:
			return goInt(cap(x))
		case *value:
			return goInt(cap((*x).(array)))
		case []value:
			return goInt(cap(x))
		}
		panic(fmt.Sprintf("cap: illegal operand: %T", args[0]))
	case "min", "max":
		acc := args[0]
		for _, a := range args[1:] {
			var lt value
			if fn.Name() == "min" {
				lt = in.binop(token.LSS, nil, a, acc)
			} else {
				lt = in.binop(token.GTR, nil, a, acc)
			}
			acc = in.ite(lt, a, acc)
		}
		return acc
	case "recover":
		return in.doRecover(caller)
	case "Sizeof":
		switch a := args[0].(type) {
		case ival:
			return mkInt(64, false, uint64(a.bits/8))
		case bool, sbool:
			return mkInt(64, false, 1)
		case float64:
			return mkInt(64, false, 8)
		}
		panic(abortPath{"unsupported", fmt.Sprintf("unsafe.Sizeof(%T)", args[0])})
	case "ssa:wrapnilchk":
		recv := args[0]
		if recv.(*value) == nil {
			in.rtPanic(fmt.Sprintf("value method %s.%s called using nil pointer", args[1], args[2]))
		}
		return recv
	case "clear":
		switch x := args[0].(type) {
		case *gomap:
			if x != nil {
				*x = *newMap()
			}
		case []value:
			for i := range x {
				x[i] = in.zeroLike(x[i])
			}
		}
		return nil
	}
	panic(abortPath{"unsupported", "builtin " + fn.Name()})
}

func (in *Interp) zeroLike(v value) value {
	switch v := v.(type) {
	case ival:
		return mkInt(v.bits, v.signed, 0)
	case bool, sbool:
		return false
	case string, *sstr:
		return ""
	case structure:
		r := make(structure, len(v))
		for i := range v {
			r[i] = in.zeroLike(v[i])
		}
		return r
	case array:
		r := make(array, len(v))
		for i := range v {
			r[i] = in.zeroLike(v[i])
		}
		return r
	case *value:
		return (*value)(nil)
	case []value:
		return []value(nil)
	case iface:
		return iface{}
	case *gomap:
		return (*gomap)(nil)
	case float64:
		return float64(0)
	}
	panic(fmt.Sprintf("zeroLike: %T", v))
}

// ite merges two values under a boolean (concrete or symbolic) condition.
// ok=false if the values cannot be merged.
func (in *Interp) ite(c value, a, b value) value {
	r, ok := in.tryIte(in.bterm(c), a, b)
	if !ok {
		panic(abortPath{"unsupported", fmt.Sprintf("cannot merge values %T / %T", a, b)})
	}
	return r
}

func (in *Interp) tryIte(c *smt.Term, a, b value) (value, bool) {
	if c.IsTrue() {
		return a, true
	}
	if c.IsFalse() {
		return b, true
	}
	C := in.p.C
	switch av := a.(type) {
	case ival:
		bv, ok := b.(ival)
		if !ok || av.bits != bv.bits {
			return nil, false
		}
		if av == bv {
			return av, true
		}
		return mkIntTerm(av.bits, av.signed, C.Ite(c, in.iterm(av), in.iterm(bv))), true
	case bool, sbool:
		if !isBoolVal(b) {
			return nil, false
		}
		return mkBool(C.Ite(c, in.bterm(a), in.bterm(b))), true
	case string, *sstr:
		if !isStrVal(b) {
			return nil, false
		}
		if as, ok := a.(string); ok {
			if bs, ok := b.(string); ok && as == bs {
				return a, true
			}
		}
		x, y := in.sbytes(a), in.sbytes(b)
		if len(x) != len(y) {
			return nil, false
		}
		r := make([]ival, len(x))
		for i := range x {
			m, _ := in.tryIte(c, x[i], y[i])
			r[i] = m.(ival)
		}
		return mkStr(r), true
	case structure:
		bv, ok := b.(structure)
		if !ok || len(av) != len(bv) {
			return nil, false
		}
		r := make(structure, len(av))
		for i := range av {
			m, ok := in.tryIte(c, av[i], bv[i])
			if !ok {
				return nil, false
			}
			r[i] = m
		}
		return r, true
	case array:
		bv, ok := b.(array)
		if !ok || len(av) != len(bv) {
			return nil, false
		}
		r := make(array, len(av))
		for i := range av {
			m, ok := in.tryIte(c, av[i], bv[i])
			if !ok {
				return nil, false
			}
			r[i] = m
		}
		return r, true
	case tuple:
		bv, ok := b.(tuple)
		if !ok || len(av) != len(bv) {
			return nil, false
		}
		r := make(tuple, len(av))
		for i := range av {
			m, ok := in.tryIte(c, av[i], bv[i])
			if !ok {
				return nil, false
			}
			r[i] = m
		}
		return r, true
	case []value:
		bv, ok := b.([]value)
		if !ok || len(av) != len(bv) {
			return nil, false
		}
		if len(av) == 0 && (av == nil) == (bv == nil) {
			return av, true
		}
		if len(av) > 0 && &av[0] == &bv[0] && cap(av) == cap(bv) {
			return av, true
		}
		return nil, false
	case *value:
		if bv, ok := b.(*value); ok && av == bv {
			return av, true
		}
		return nil, false
	case iface:
		bv, ok := b.(iface)
		if !ok {
			return nil, false
		}
		if av.t == nil && bv.t == nil {
			return av, true
		}
		if av.t == nil || bv.t == nil || !types.Identical(av.t, bv.t) {
			return nil, false
		}
		m, ok := in.tryIte(c, av.v, bv.v)
		if !ok {
			return nil, false
		}
		return iface{av.t, m}, true
	case bvval:
		bv, ok := b.(bvval)
		if !ok || av.t.S != bv.t.S {
			return nil, false
		}
		return bvval{C.Ite(c, av.t, bv.t)}, true
	case arrval:
		bv, ok := b.(arrval)
		if !ok {
			return nil, false
		}
		return arrval{C.Ite(c, av.t, bv.t)}, true
	case float64:
		if bv, ok := b.(float64); ok && av == bv {
			return av, true
		}
		return nil, false
	case nil:
		if b == nil {
			return nil, true
		}
		return nil, false
	case *ssa.Function:
		if bv, ok := b.(*ssa.Function); ok && av == bv {
			return av, true
		}
		return nil, false
	case *gomap:
		if bv, ok := b.(*gomap); ok && av == bv {
			return av, true
		}
		return nil, false
	}
	return nil, false
}

func decodeRune(b []byte) (rune, int) {
	s := string(b)
	for _, r := range s {
		n := len(string(r))
		if r == 0xFFFD {
			n = 1
		}
		return r, n
	}
	return 0xFFFD, 1
}
