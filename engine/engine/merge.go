package engine

import (
	"go/token"

	"gosym/smt"

	"golang.org/x/tools/go/ssa"
)

// mergeCall summarises a call to a side-effect-free function: the callee's own
// paths are explored in a nested exploration from the same arguments and the
// results are merged into one value (ite over the sub-path conditions).
// ok=false means "fall back to ordinary forking".
func (in *Interp) mergeCall(caller *frame, callpos token.Pos, fn *ssa.Function, args []value) (result value, ok bool) {
	p := in.p
	C := p.C
	type res struct {
		cond *smt.Term
		v    value
	}
	var results []res
	work := [][]int{nil}
	savedTop, savedDepth := in.top, in.depth
	for len(work) > 0 {
		script := work[len(work)-1]
		work = work[:len(work)-1]
		if len(results) >= 128 {
			return nil, false
		}
		sub := &subExplore{script: script}
		p.S.Push()
		savedPC := len(p.pcond)
		p.sub = sub
		var v value
		bad := false
		func() {
			defer func() {
				if r := recover(); r != nil {
					p.sub = nil
					in.top, in.depth = savedTop, savedDepth
					if _, isTP := r.(targetPanic); isTP {
						bad = true
						return
					}
					if ap, isAbort := r.(abortPath); isAbort && (ap.kind == "unsupported" || ap.kind == "harness-error") {
						bad = true
						return
					}
					p.pcond = p.pcond[:savedPC]
					p.S.Pop()
					panic(r)
				}
			}()
			cp := make([]value, len(args))
			copy(cp, args)
			v = in.callSSAPlain(caller, callpos, fn, cp)
		}()
		p.sub = nil
		p.pcond = p.pcond[:savedPC]
		p.S.Pop()
		if bad {
			return nil, false
		}
		results = append(results, res{C.And(sub.conds...), v})
		work = append(work, sub.alts...)
	}
	if len(results) == 0 {
		return nil, false
	}
	// Partial merging: results that can be merged share one continuation;
	// results that cannot (e.g. different pointers) become separate forks.
	type cluster struct {
		cond *smt.Term
		v    value
	}
	var clusters []*cluster
	for _, r := range results {
		placed := false
		for _, cl := range clusters {
			if m, ok := in.tryIteFresh(r.cond, r.v, cl.v); ok {
				cl.v = m
				cl.cond = C.Or(cl.cond, r.cond)
				placed = true
				break
			}
		}
		if !placed {
			if len(clusters) >= 64 {
				return nil, false
			}
			clusters = append(clusters, &cluster{r.cond, r.v})
		}
	}
	in.x.merged(len(results))
	for i, cl := range clusters {
		if i == len(clusters)-1 {
			// the sub-path conditions are exhaustive under the path condition
			return cl.v, true
		}
		if p.decide(cl.cond) {
			return cl.v, true
		}
	}
	return nil, false
}

func (x *Explorer) merged(n int) {
	x.mu.Lock()
	x.mergedCalls++
	x.mergedPaths += n
	x.mu.Unlock()
}

// tryIteFresh is tryIte that may also merge distinct freshly allocated slices
// and pointers by content (sound for results of side-effect-free callees).
func (in *Interp) tryIteFresh(c *smt.Term, a, b value) (value, bool) {
	if r, ok := in.tryIte(c, a, b); ok {
		return r, true
	}
	switch av := a.(type) {
	case []value:
		bv, ok := b.([]value)
		if !ok || len(av) != len(bv) {
			return nil, false
		}
		r := make([]value, len(av))
		for i := range av {
			m, ok := in.tryIteFresh(c, av[i], bv[i])
			if !ok {
				return nil, false
			}
			r[i] = m
		}
		return r, true
	case *value:
		bv, ok := b.(*value)
		if !ok || av == nil || bv == nil {
			return nil, false
		}
		m, ok := in.tryIteFresh(c, *av, *bv)
		if !ok {
			return nil, false
		}
		return &m, true
	case structure:
		bv, ok := b.(structure)
		if !ok || len(av) != len(bv) {
			return nil, false
		}
		r := make(structure, len(av))
		for i := range av {
			m, ok := in.tryIteFresh(c, av[i], bv[i])
			if !ok {
				return nil, false
			}
			r[i] = m
		}
		return r, true
	case tuple:
		bv, ok := b.(tuple)
		if !ok || len(av) != len(bv) {
			return nil, false
		}
		r := make(tuple, len(av))
		for i := range av {
			m, ok := in.tryIteFresh(c, av[i], bv[i])
			if !ok {
				return nil, false
			}
			r[i] = m
		}
		return r, true
	case iface:
		bv, ok := b.(iface)
		if !ok || av.t == nil || bv.t == nil {
			return nil, false
		}
		if av.t.String() != bv.t.String() {
			return nil, false
		}
		m, ok := in.tryIteFresh(c, av.v, bv.v)
		if !ok {
			return nil, false
		}
		return iface{av.t, m}, true
	}
	return nil, false
}
