package engine

import (
	"fmt"
	"go/token"
	"os"
	"sort"
	"strings"
	"sync"
	"sync/atomic"
	"time"

	"gosym/smt"

	"golang.org/x/tools/go/packages"
	"golang.org/x/tools/go/ssa"
	"golang.org/x/tools/go/ssa/ssautil"
)

// Program is the loaded SSA program (shared, read-only after Build).
type Program struct {
	Prog *ssa.Program
	Pkgs []*ssa.Package
	Fset *token.FileSet
}

// Load type-checks /repo (patterns) with the overlay and builds SSA.
func Load(dir string, overlay map[string][]byte, patterns []string) (*Program, error) {
	cfg := &packages.Config{
		Mode: packages.NeedName | packages.NeedFiles | packages.NeedCompiledGoFiles | packages.NeedImports |
			packages.NeedDeps | packages.NeedTypes | packages.NeedSyntax | packages.NeedTypesInfo | packages.NeedTypesSizes | packages.NeedModule,
		Dir:        dir,
		Overlay:    overlay,
		BuildFlags: []string{"-tags=verif"},
		Env:        append(os.Environ(), "GOFLAGS=-mod=mod", "GOPROXY=off", "GOSUMDB=off", "GOTOOLCHAIN=local"),
	}
	pkgs, err := packages.Load(cfg, patterns...)
	if err != nil {
		return nil, err
	}
	var errs []string
	packages.Visit(pkgs, nil, func(p *packages.Package) {
		for _, e := range p.Errors {
			errs = append(errs, e.Error())
		}
	})
	if len(errs) > 0 {
		return nil, fmt.Errorf("load errors:\n%s", strings.Join(errs, "\n"))
	}
	prog, spkgs := ssautil.AllPackages(pkgs, ssa.InstantiateGenerics)
	prog.Build()
	return &Program{Prog: prog, Pkgs: spkgs, Fset: prog.Fset}, nil
}

func (P *Program) Func(pkgPath, name string) *ssa.Function {
	for _, p := range P.Prog.AllPackages() {
		if p.Pkg.Path() == pkgPath {
			return p.Func(name)
		}
	}
	return nil
}

// Explorer explores all paths of one harness function.
type Explorer struct {
	P         *Program
	Harness   string
	Fn        *ssa.Function
	Lim       Limits
	NoIfConv  bool
	Merge     map[string]bool
	OpenKnown map[string]bool
	Params    map[string]int
	SolverCmd string
	Abstract  bool // bvmul/bvudiv/bvurem on >= AbstractMinW bits as shared UFs
	AbstractW int
	AbstractG bool
	Workers   int
	MaxPaths  int
	Pinned    map[string]uint64 // concrete mode
	Concrete  bool
	PinChoice []int
	Trace     bool

	CrossEvery                                         int // cross-check every n-th incremental unsat (0 = off)
	crossCtr, crossAgreed, crossDisagreed, crossUndecided int64

	ifConverted int64
	mergedCalls int
	oneShots    int64
	tFeas, tObl int64
	nFeasI, nOblI int64
	winners     map[string]int
	Race        []string
	mergedPaths int
	mu          sync.Mutex
	notes       []string
	noteCount   map[string]int
}

func (x *Explorer) note(s string) {
	x.mu.Lock()
	defer x.mu.Unlock()
	if x.noteCount == nil {
		x.noteCount = map[string]int{}
	}
	x.noteCount[s]++
	if x.noteCount[s] == 1 && len(x.notes) < 200 {
		x.notes = append(x.notes, s)
	}
}

var allowedPrefixes = []string{
	"mltwist", "github.com/zyedidia/generic", "golang.org/x/exp/constraints",
	"sort", "strconv", "unicode/utf8", "math/bits", "bufio", "unicode",
}

func (x *Explorer) allowed(fn *ssa.Function) bool {
	pkg := fn.Pkg
	if pkg == nil && fn.Origin() != nil {
		pkg = fn.Origin().Pkg
	}
	if pkg == nil {
		// synthetic wrappers/thunks/bound methods
		return true
	}
	path := pkg.Pkg.Path()
	switch fn.String() {
	case "(*errors.errorString).Error", "(*fmt.wrapError).Error", "(*fmt.wrapError).Unwrap":
		return true
	}
	for _, p := range allowedPrefixes {
		if path == p || strings.HasPrefix(path, p+"/") {
			return true
		}
	}
	return false
}

func initAllowed(path string) bool {
	for _, p := range []string{"mltwist", "github.com/zyedidia/generic", "golang.org/x/exp/constraints"} {
		if path == p || strings.HasPrefix(path, p+"/") {
			return true
		}
	}
	return false
}

func (x *Explorer) mergeable(name string) bool { return x.Merge[name] }

// Report is the aggregated outcome of exploring one harness.
type Report struct {
	Harness      string
	Paths        int
	Completed    int
	Infeasible   int
	Statuses     map[string]int
	Msgs         map[string]int
	Violations   []Violation
	KnownHits    map[string]Violation
	Obl          int
	Discharged   int
	Trivial      int
	Unknown      int
	FeasQ        int
	Decisions    int
	Steps        int64
	Reached      map[string]bool
	MustFail     map[string]bool
	Samples      []string
	SolverTime   time.Duration
	SolverCalls  int
	Funcs        map[string]int
	IfConverted  int64
	Notes        []string
	Wall         time.Duration
	Truncated    bool
	ObservedByPt [][]string
	OneShots     int64
	CrossAgreed, CrossDisagreed, CrossUndecided int64
	Winners      map[string]int
}

// Run explores the harness with the configured number of workers.
func (x *Explorer) Run() *Report {
	start := time.Now()
	rep := &Report{Harness: x.Harness, Statuses: map[string]int{}, Msgs: map[string]int{}, KnownHits: map[string]Violation{},
		Reached: map[string]bool{}, MustFail: map[string]bool{}, Funcs: map[string]int{}}
	if x.Workers <= 0 {
		x.Workers = 1
	}
	var mu sync.Mutex
	work := [][]int{nil}
	if x.Concrete {
		work = [][]int{nil}
	}
	active := 0
	cond := sync.NewCond(&mu)
	var wg sync.WaitGroup
	for w := 0; w < x.Workers; w++ {
		wg.Add(1)
		go func() {
			defer wg.Done()
			var solver *smt.Solver
			defer func() {
				if solver != nil {
					solver.Close()
				}
			}()
			for {
				mu.Lock()
				for len(work) == 0 && active > 0 {
					cond.Wait()
				}
				if len(work) == 0 {
					mu.Unlock()
					cond.Broadcast()
					return
				}
				if x.MaxPaths > 0 && rep.Paths >= x.MaxPaths {
					rep.Truncated = true
					work = nil
					mu.Unlock()
					cond.Broadcast()
					return
				}
				script := work[len(work)-1]
				work = work[:len(work)-1]
				active++
				rep.Paths++
				mu.Unlock()

				if solver == nil {
					var err error
					solver, err = smt.NewSolver(x.SolverCmd)
					if err != nil {
						panic(err)
					}
					if d := os.Getenv("GOSYM_LOG"); d != "" {
						f, _ := os.CreateTemp(d, "solver-*.smt2")
						solver.Log = f
					}
				}
				res := x.runPath(solver, script)
				if solver.Queries > 20000 || solver.Dead() {
					solver.Close()
					solver = nil
				}

				mu.Lock()
				active--
				work = append(work, res.Alts...)
				rep.merge(res)
				mu.Unlock()
				cond.Broadcast()
			}
		}()
	}
	wg.Wait()
	rep.IfConverted = atomic.LoadInt64(&x.ifConverted)
	rep.Notes = x.notes
	rep.OneShots, rep.Winners = x.Stats()
	rep.CrossAgreed, rep.CrossDisagreed, rep.CrossUndecided = x.CrossStats()
	rep.Wall = time.Since(start)
	return rep
}

func (rep *Report) merge(res *PathResult) {
	rep.Statuses[res.Status]++
	if res.Status == "ok" || res.Status == "violation" {
		rep.Completed++
	}
	if res.Status != "ok" && res.Status != "infeasible" && res.Status != "violation" {
		rep.Msgs[res.Status+": "+res.Msg]++
	}
	rep.Violations = append(rep.Violations, res.Violations...)
	for id, v := range res.KnownHits {
		if _, ok := rep.KnownHits[id]; !ok {
			rep.KnownHits[id] = v
		}
	}
	rep.Obl += res.Obl
	rep.Discharged += res.Discharged
	rep.Trivial += res.Trivial
	rep.Unknown += res.Unknown
	rep.FeasQ += res.FeasQ
	rep.Decisions += res.Decisions
	rep.Steps += res.Steps
	for _, r := range res.Reached {
		rep.Reached[r] = true
	}
	for _, m := range res.MustFail {
		if m.ok {
			rep.MustFail[m.msg] = true
		} else if _, seen := rep.MustFail[m.msg]; !seen {
			rep.MustFail[m.msg] = false
		}
	}
	if len(rep.Samples) < 6 {
		rep.Samples = append(rep.Samples, res.Samples...)
	}
	rep.SolverTime += res.SolverTime
	rep.SolverCalls += res.SolverCalls
	for f, n := range res.Funcs {
		rep.Funcs[f] += n
	}
	if len(res.Observed) > 0 {
		rep.ObservedByPt = append(rep.ObservedByPt, res.Observed)
	}
}

func (x *Explorer) runPath(solver *smt.Solver, script []int) (res *PathResult) {
	C := smt.NewCtx()
	C.AbstractMulDiv = x.Abstract
	C.AbstractMinW = x.AbstractW
	C.AbstractGuards = x.AbstractG
	p := &Path{C: C, S: solver, X: x, script: append([]int(nil), script...), names: map[string]int{},
		known: map[string]*smt.Term{}, reached: map[string]bool{}, knownHits: map[string]Violation{},
		pinned: x.Pinned, concrete: x.Concrete}
	in := &Interp{prog: x.P.Prog, globals: map[*ssa.Global]*value{}, p: p, x: x, funcs: map[string]int{}, bigs: map[*value]*bigval{}}
	q0, t0 := solver.Queries, solver.Time
	solver.Push()
	res = &PathResult{Status: "ok"}
	func() {
		defer func() {
			if r := recover(); r != nil {
				switch r := r.(type) {
				case abortPath:
					res.Status, res.Msg = r.kind, r.msg
				case targetPanic:
					// "unknown = keep" lets a path run on after a feasibility query
					// timed out; before blaming the harness, settle with a generous
					// one-shot query whether this path exists at all
					if len(p.pcond) > 0 {
						if rr, _, _, _, _ := smt.Race(x.raceSolvers(), p.pcond, nil, 30000); rr == smt.Unsat {
							res.Status, res.Msg = "infeasible", "path condition unsatisfiable (found after a harness panic)"
							return
						}
					}
					res.Status, res.Msg = "harness-error", "panic outside sym.NoPanic/Panics: "+in.panicText(r)+"\n"+r.stack
				default:
					panic(r)
				}
			}
		}()
		// package initialisers (mltwist and its pure-Go deps only)
		if pkg := x.Fn.Pkg; pkg != nil {
			in.call(nil, token.NoPos, pkg.Func("init"), nil)
		}
		in.initDone = true
		in.call(nil, token.NoPos, x.Fn, nil)
		p.flushBatch()
	}()
	if res.Status == "stopped" {
		res.Status = "ok"
	}
	if res.Status == "infeasible" && len(p.batch) > 0 {
		// obligations stated before the path turned out infeasible still count
		func() {
			defer func() {
				if r := recover(); r != nil {
					if ap, ok := r.(abortPath); ok && ap.kind == "violation" {
						res.Status, res.Msg = ap.kind, ap.msg
					}
				}
			}()
			p.flushBatch()
		}()
	}
	solver.Pop()
	res.Script = p.fullScript()
	res.Alts = p.alts
	res.Violations = p.violations
	res.KnownHits = p.knownHits
	res.Obl, res.Discharged, res.Trivial, res.Unknown = p.nObl, p.nDischarged, p.nTrivial, p.nUnknown
	res.FeasQ, res.Decisions, res.Steps = p.nFeasQ, p.nDecisions, p.steps
	res.Reached = sortedKeys(p.reached)
	res.MustFail = p.mustFail
	res.Samples = p.samples
	res.Observed = p.observed
	res.SolverCalls = solver.Queries - q0
	res.SolverTime = solver.Time - t0
	res.Funcs = in.funcs
	if x.Trace {
		fmt.Fprintf(os.Stderr, "path %s -> %s %s (alts %d, obl %d)\n", scriptString(res.Script), res.Status, clip(res.Msg, 300), len(res.Alts), res.Obl)
		for _, o := range res.Observed {
			fmt.Fprintf(os.Stderr, "    observed %s\n", clip(o, 300))
		}
	}
	return res
}

// TopFuncs lists the functions with the most executed instructions.
func (rep *Report) TopFuncs(n int) []string {
	type kv struct {
		k string
		v int
	}
	var l []kv
	for k, v := range rep.Funcs {
		l = append(l, kv{k, v})
	}
	sort.Slice(l, func(i, j int) bool { return l[i].v > l[j].v || (l[i].v == l[j].v && l[i].k < l[j].k) })
	var out []string
	for i := 0; i < len(l) && i < n; i++ {
		out = append(out, fmt.Sprintf("%s:%d", l[i].k, l[i].v))
	}
	return out
}

// CrossStats: sampled incremental "unsat" answers re-decided one-shot: agreed, disagreed, undecided.
func (x *Explorer) CrossStats() (int64, int64, int64) {
	return atomic.LoadInt64(&x.crossAgreed), atomic.LoadInt64(&x.crossDisagreed), atomic.LoadInt64(&x.crossUndecided)
}

func (x *Explorer) countOneShot() { atomic.AddInt64(&x.oneShots, 1) }

func (x *Explorer) raceSolvers() []string {
	if len(x.Race) > 0 {
		return x.Race
	}
	return []string{"z3", "z3-new"}
}

func (x *Explorer) countWinner(k string) {
	x.mu.Lock()
	if x.winners == nil {
		x.winners = map[string]int{}
	}
	x.winners[k]++
	x.mu.Unlock()
}

// Stats returns solver usage counters.
func (x *Explorer) Stats() (oneShots int64, winners map[string]int) {
	x.mu.Lock()
	defer x.mu.Unlock()
	w := map[string]int{}
	for k, v := range x.winners {
		w[k] = v
	}
	return atomic.LoadInt64(&x.oneShots), w
}

func (x *Explorer) addTime(obl bool, d time.Duration) {
	if obl {
		atomic.AddInt64(&x.tObl, int64(d))
		atomic.AddInt64(&x.nOblI, 1)
	} else {
		atomic.AddInt64(&x.tFeas, int64(d))
		atomic.AddInt64(&x.nFeasI, 1)
	}
}

// Timing returns incremental-query timing (feasibility / obligation).
func (x *Explorer) Timing() string {
	return fmt.Sprintf("incr feas %d q %.1fs, incr obl %d q %.1fs", x.nFeasI, time.Duration(x.tFeas).Seconds(), x.nOblI, time.Duration(x.tObl).Seconds())
}
