package engine

import (
	"fmt"
	"strings"

	"gosym/smt"
)

// lazyFmt is a formatted string whose rendering is postponed until some code
// looks at its bytes (most formatted strings are error messages nobody reads).
type lazyFmt struct {
	format string
	args   []value
	sprint bool // Sprint-style (no format)
	ln     bool
}

func hasSym(v value, depth int) bool {
	if depth > 6 {
		return false
	}
	switch v := v.(type) {
	case ival:
		return v.t != nil
	case sbool:
		return true
	case *sstr:
		return true
	case iface:
		return hasSym(v.v, depth+1)
	case structure:
		for _, e := range v {
			if hasSym(e, depth+1) {
				return true
			}
		}
	case array:
		for _, e := range v {
			if hasSym(e, depth+1) {
				return true
			}
		}
	case []value:
		for _, e := range v {
			if hasSym(e, depth+1) {
				return true
			}
		}
	case *value:
		if v != nil {
			return hasSym(*v, depth+1)
		}
	case bvval, arrval:
		return true
	}
	return false
}

func (in *Interp) sprintf(format string, args []value) value {
	for _, a := range args {
		if hasSym(a, 0) {
			return &sstr{lazy: &lazyFmt{format: format, args: args}}
		}
	}
	l := &lazyFmt{format: format, args: args}
	return mkStr(l.force(in))
}

func (in *Interp) sprint(args []value, ln bool) value {
	l := &lazyFmt{args: args, sprint: true, ln: ln}
	for _, a := range args {
		if hasSym(a, 0) {
			return &sstr{lazy: l}
		}
	}
	return mkStr(l.force(in))
}

// toNative converts a concrete interpreter value to a Go value for fmt.
func (in *Interp) toNative(v value, verb byte) interface{} {
	switch v := v.(type) {
	case nil:
		return nil
	case bool:
		return v
	case ival:
		switch {
		case v.signed && v.bits == 8:
			return int8(v.sext())
		case v.signed && v.bits == 16:
			return int16(v.sext())
		case v.signed && v.bits == 32:
			return int32(v.sext())
		case v.signed:
			return int(v.sext())
		case v.bits == 8:
			return uint8(v.c)
		case v.bits == 16:
			return uint16(v.c)
		case v.bits == 32:
			return uint32(v.c)
		}
		return uint64(v.c)
	case string:
		return v
	case float64:
		return v
	case float32:
		return v
	case []value:
		allBytes := len(v) > 0
		for _, e := range v {
			if x, ok := e.(ival); !ok || x.bits != 8 || x.signed {
				allBytes = false
			}
		}
		if allBytes {
			b := make([]byte, len(v))
			for i, e := range v {
				b[i] = byte(e.(ival).c)
			}
			return b
		}
		r := make([]interface{}, len(v))
		for i, e := range v {
			r[i] = in.toNative(e, verb)
		}
		return r
	case iface:
		if v.t == nil {
			return nil
		}
		if verb == 's' || verb == 'v' || verb == 'q' || verb == 'w' {
			if s, ok := in.tryErrorString(v); ok {
				return s
			}
		}
		if verb == 'T' {
			return typeName(v.t.String())
		}
		return in.toNative(v.v, verb)
	}
	return in.render(v)
}

type typeName string

func (t typeName) Format(f fmt.State, c rune) { fmt.Fprint(f, string(t)) }

func (l *lazyFmt) approx(in *Interp) string {
	bs := l.render(in, true)
	var sb strings.Builder
	for _, b := range bs {
		if b.t != nil {
			sb.WriteByte('?')
		} else {
			sb.WriteByte(byte(b.c))
		}
	}
	return sb.String()
}

func (l *lazyFmt) newlines(in *Interp) int {
	return strings.Count(l.approx(in), "\n")
}

func (l *lazyFmt) force(in *Interp) []ival { return l.render(in, false) }

// render produces the bytes; with approx=true symbolic numbers become "?"
// (no forking).
func (l *lazyFmt) render(in *Interp, approx bool) []ival {
	var out []ival
	lit := func(s string) { out = append(out, strBytesConc(s)...) }
	if l.sprint {
		for i, a := range l.args {
			if i > 0 && (l.ln || !(isStrVal(unwrapIface(a)) || isStrVal(unwrapIface(l.args[i-1])))) {
				lit(" ")
			}
			out = append(out, in.fmtArg(a, "%v", 'v', approx)...)
		}
		if l.ln {
			lit("\n")
		}
		return out
	}
	f := l.format
	argi := 0
	for i := 0; i < len(f); i++ {
		if f[i] != '%' {
			out = append(out, mkInt(8, false, uint64(f[i])))
			continue
		}
		j := i + 1
		for j < len(f) && strings.ContainsRune("+-# 0123456789.", rune(f[j])) {
			j++
		}
		if j >= len(f) {
			lit("%!(NOVERB)")
			break
		}
		verb := f[j]
		spec := f[i : j+1]
		i = j
		if verb == '%' {
			lit("%")
			continue
		}
		if argi >= len(l.args) {
			lit("%!" + string(verb) + "(MISSING)")
			continue
		}
		a := l.args[argi]
		argi++
		out = append(out, in.fmtArg(a, spec, verb, approx)...)
	}
	return out
}

func unwrapIface(v value) value {
	if i, ok := v.(iface); ok && i.t != nil {
		return i.v
	}
	return v
}

func (in *Interp) fmtArg(a value, spec string, verb byte, approx bool) []ival {
	if verb == 'w' {
		spec = spec[:len(spec)-1] + "v"
		verb = 'v'
	}
	if !hasSym(a, 0) {
		return strBytesConc(fmt.Sprintf(spec, in.toNative(a, verb)))
	}
	if verb == 'T' {
		if i, ok := a.(iface); ok && i.t != nil {
			return strBytesConc(i.t.String())
		}
	}
	inner := a
	if i, ok := a.(iface); ok {
		if i.t != nil && (verb == 's' || verb == 'v' || verb == 'q') {
			if fn := in.stringerMethod(i); fn != nil {
				r := in.call(in.top, 0, fn, []value{i.v})
				return in.padStr(in.sbytesMode(r, approx), spec)
			}
		}
		inner = i.v
	}
	if approx {
		switch x := inner.(type) {
		case *sstr:
			return in.sbytesMode(x, true)
		}
		return strBytesConc("?")
	}
	switch x := inner.(type) {
	case ival:
		width, zero := parseWidth(spec)
		switch verb {
		case 'd', 'v':
			return pad(in.decDigits(x), width, zero)
		case 'x', 'X':
			if zero && !x.signed && width >= int(x.bits)/4 && !strings.Contains(spec, "#") {
				// zero-padded to at least the full width: all nibbles, no fork on the digit count
				var out []ival
				for i := int(x.bits)/4 - 1; i >= 0; i-- {
					out = append(out, in.hexNibble(in.p.C.Extract(x.t, 4*i+3, 4*i), verb == 'X'))
				}
				return pad(out, width, true)
			}
			return pad(in.hexDigits(x, verb == 'X', strings.Contains(spec, "#")), width, zero)
		case 'c':
			C := in.p.C
			if in.p.decide(C.Cmp(smt.OpBvUle, C.BVConst(0x80, int(x.bits)), x.t)) {
				panic(abortPath{"unsupported", "%c of symbolic non-ASCII value"})
			}
			return []ival{mkIntTerm(8, false, C.Resize(x.t, 8, false))}
		}
	case sbool:
		if in.p.decide(x.t) {
			return strBytesConc("true")
		}
		return strBytesConc("false")
	case *sstr:
		if verb == 's' || verb == 'v' {
			return in.padStr(in.sbytes(x), spec)
		}
	case []value:
		if verb == 'x' || verb == 'X' {
			var out []ival
			if strings.Contains(spec, "#") {
				out = append(out, strBytesConc("0x")...)
			}
			for _, e := range x {
				ev, ok := e.(ival)
				if !ok || ev.bits != 8 {
					panic(abortPath{"unsupported", "%x of symbolic non-byte slice"})
				}
				out = append(out, in.hexByte(ev, verb == 'X')...)
			}
			return out
		}
		if verb == 'v' || verb == 'd' {
			out := strBytesConc("[")
			for i, e := range x {
				if i > 0 {
					out = append(out, strBytesConc(" ")...)
				}
				out = append(out, in.fmtArg(e, "%"+string(verb), verb, approx)...)
			}
			return append(out, strBytesConc("]")...)
		}
	}
	panic(abortPath{"unsupported", fmt.Sprintf("formatting %s of symbolic %T", spec, inner)})
}

func (in *Interp) sbytesMode(v value, approx bool) []ival {
	if s, ok := v.(*sstr); ok && approx && s.lazy != nil && s.b == nil {
		return strBytesConc(s.lazy.approx(in))
	}
	return in.sbytes(v)
}

func parseWidth(spec string) (int, bool) {
	w, zero := 0, false
	body := spec[1 : len(spec)-1]
	body = strings.TrimLeft(body, "+-# ")
	if strings.HasPrefix(body, "0") {
		zero = true
	}
	fmt.Sscanf(body, "%d", &w)
	return w, zero
}

func pad(b []ival, width int, zero bool) []ival {
	for len(b) < width {
		c := byte(' ')
		if zero {
			c = '0'
		}
		b = append([]ival{mkInt(8, false, uint64(c))}, b...)
	}
	return b
}

func (in *Interp) padStr(b []ival, spec string) []ival {
	w, _ := parseWidth(spec)
	if strings.Contains(spec, "-") {
		for len(b) < w {
			b = append(b, mkInt(8, false, ' '))
		}
		return b
	}
	return pad(b, w, false)
}

// decDigits renders a symbolic integer in decimal, forking on the digit count.
func (in *Interp) decDigits(x ival) []ival {
	C := in.p.C
	w := int(x.bits)
	mag := x.t
	var out []ival
	if x.signed {
		if in.p.decide(C.Cmp(smt.OpBvSlt, x.t, C.BVConst(0, w))) {
			out = append(out, mkInt(8, false, '-'))
			mag = C.BvNeg(x.t)
		}
	}
	// number of digits
	maxDigits := len(fmt.Sprint(maskBits(x.bits)))
	n := maxDigits
	pow := uint64(10)
	for d := 1; d < maxDigits; d++ {
		if in.p.decide(C.Cmp(smt.OpBvUlt, mag, C.BVConst(pow, w))) {
			n = d
			break
		}
		pow *= 10
	}
	digits := make([]ival, n)
	cur := mag
	ten := C.BVConst(10, w)
	for i := n - 1; i >= 0; i-- {
		d := C.Bin(smt.OpBvURem, cur, ten)
		digits[i] = mkIntTerm(8, false, C.Bin(smt.OpBvAdd, C.Resize(d, 8, false), C.BVConst('0', 8)))
		cur = C.Bin(smt.OpBvUDiv, cur, ten)
	}
	return append(out, digits...)
}

func (in *Interp) hexNibble(n *smt.Term, upper bool) ival {
	C := in.p.C
	n8 := C.Resize(n, 8, false)
	a := byte('a')
	if upper {
		a = 'A'
	}
	return mkIntTerm(8, false, C.Ite(C.Cmp(smt.OpBvUlt, n8, C.BVConst(10, 8)),
		C.Bin(smt.OpBvAdd, n8, C.BVConst('0', 8)),
		C.Bin(smt.OpBvAdd, n8, C.BVConst(uint64(a-10), 8))))
}

func (in *Interp) hexByte(x ival, upper bool) []ival {
	if x.t == nil {
		f := "%02x"
		if upper {
			f = "%02X"
		}
		return strBytesConc(fmt.Sprintf(f, x.c))
	}
	C := in.p.C
	return []ival{in.hexNibble(C.Extract(x.t, 7, 4), upper), in.hexNibble(C.Extract(x.t, 3, 0), upper)}
}

func (in *Interp) hexDigits(x ival, upper, alt bool) []ival {
	C := in.p.C
	w := int(x.bits)
	mag := x.t
	var out []ival
	if x.signed {
		if in.p.decide(C.Cmp(smt.OpBvSlt, x.t, C.BVConst(0, w))) {
			out = append(out, mkInt(8, false, '-'))
			mag = C.BvNeg(x.t)
		}
	}
	if alt {
		out = append(out, strBytesConc("0x")...)
	}
	maxDigits := w / 4
	n := maxDigits
	for d := 1; d < maxDigits; d++ {
		if in.p.decide(C.Cmp(smt.OpBvUlt, mag, C.BVConst(uint64(1)<<(4*uint(d)), w))) {
			n = d
			break
		}
	}
	for i := n - 1; i >= 0; i-- {
		out = append(out, in.hexNibble(C.Extract(mag, 4*i+3, 4*i), upper))
	}
	return out
}

// literalPrefix returns the literal text before the first verb of the format.
func (l *lazyFmt) literalPrefix() string {
	if l.sprint {
		return ""
	}
	i := strings.IndexByte(l.format, '%')
	if i < 0 {
		return l.format
	}
	return l.format[:i]
}

// keyParts recognises a string of the form <literal>%d with one unsigned
// integer argument without rendering it.
func (l *lazyFmt) keyParts() (string, ival, bool) {
	if l.sprint || len(l.args) != 1 {
		return "", ival{}, false
	}
	pre := l.literalPrefix()
	if l.format != pre+"%d" {
		return "", ival{}, false
	}
	a := unwrapIface(l.args[0])
	x, ok := a.(ival)
	if !ok || x.signed {
		return "", ival{}, false
	}
	return pre, x, true
}

// ---- structural view of unrendered formatted strings (sym.SameText, sym.TextSkeleton)

type textTok struct {
	lit string // literal text (when num == nil)
	num *ival  // a %d field
}

// textTokens flattens a string value into literal runs and decimal number
// fields without rendering the numbers. ok=false if that is not possible.
func (in *Interp) textTokens(v value, out []textTok) ([]textTok, bool) {
	addLit := func(s string) {
		if s == "" {
			return
		}
		if n := len(out); n > 0 && out[n-1].num == nil {
			out[n-1].lit += s
		} else {
			out = append(out, textTok{lit: s})
		}
	}
	switch x := v.(type) {
	case string:
		addLit(x)
		return out, true
	case iface:
		if x.t == nil {
			return out, false
		}
		if fn := in.stringerMethod(x); fn != nil {
			return in.textTokens(in.call(in.top, 0, fn, []value{x.v}), out)
		}
		return in.textTokens(x.v, out)
	case *sstr:
		if x.b != nil || x.lazy == nil {
			for _, b := range x.b {
				if b.t != nil {
					return out, false
				}
			}
			addLit(in.strApprox(x))
			return out, true
		}
		l := x.lazy
		if l.sprint {
			return out, false
		}
		f := l.format
		argi := 0
		for i := 0; i < len(f); i++ {
			if f[i] != '%' {
				addLit(string(f[i]))
				continue
			}
			if i+1 >= len(f) {
				return out, false
			}
			verb := f[i+1]
			i++
			if verb == '%' {
				addLit("%")
				continue
			}
			if argi >= len(l.args) {
				return out, false
			}
			a := l.args[argi]
			argi++
			switch verb {
			case 'd':
				iv, ok := unwrapIface(a).(ival)
				if !ok {
					return out, false
				}
				if iv.t == nil {
					if iv.signed {
						addLit(fmt.Sprint(iv.sext()))
					} else {
						addLit(fmt.Sprint(iv.c))
					}
					continue
				}
				cp := iv
				out = append(out, textTok{num: &cp})
			case 's', 'v':
				var ok bool
				out, ok = in.textTokens(a, out)
				if !ok {
					return out, false
				}
				// re-merge literal runs
				addLit("")
			default:
				return out, false
			}
		}
		return out, true
	}
	return out, false
}

func mergeToks(ts []textTok) []textTok {
	var out []textTok
	for _, t := range ts {
		if t.num == nil && len(out) > 0 && out[len(out)-1].num == nil {
			out[len(out)-1].lit += t.lit
			continue
		}
		out = append(out, t)
	}
	return out
}

// unambiguous: number fields are separated by literals that neither begin nor
// end with a character a decimal number could continue with, so the text
// decomposes uniquely into its literal runs and numbers.
func unambiguous(ts []textTok) bool {
	isNumCh := func(c byte) bool { return (c >= '0' && c <= '9') || c == '-' }
	for i, t := range ts {
		if t.num == nil {
			continue
		}
		if i > 0 {
			p := ts[i-1]
			if p.num != nil || (len(p.lit) > 0 && isNumCh(p.lit[len(p.lit)-1])) {
				return false
			}
		}
		if i+1 < len(ts) {
			n := ts[i+1]
			if n.num != nil || (len(n.lit) > 0 && isNumCh(n.lit[0])) {
				return false
			}
		}
	}
	return true
}

// sameText decides equality of two formatted strings from their structure.
func (in *Interp) sameText(a, b value) value {
	ta, oka := in.textTokens(a, nil)
	tb, okb := in.textTokens(b, nil)
	if !oka || !okb {
		return in.strEq(a, b) // falls back to rendering
	}
	ta, tb = mergeToks(ta), mergeToks(tb)
	if !unambiguous(ta) || !unambiguous(tb) {
		return in.strEq(a, b)
	}
	if len(ta) != len(tb) {
		// different structure: with unambiguous fields the only way to be equal is
		// a literal digit run on one side standing for a number on the other;
		// literals here never contain digits next to fields, so render to be exact
		return in.strEq(a, b)
	}
	C := in.p.C
	conds := []*smt.Term{}
	for i := range ta {
		x, y := ta[i], tb[i]
		if (x.num == nil) != (y.num == nil) {
			return in.strEq(a, b)
		}
		if x.num == nil {
			if x.lit != y.lit {
				// literal runs of both sides are delimited by the same number fields;
				// digits inside literals could re-align them, so be exact unless digit-free
				if strings.ContainsAny(x.lit+y.lit, "0123456789-") {
					return in.strEq(a, b)
				}
				return false
			}
			continue
		}
		xt := C.Resize(in.iterm(*x.num), 64, x.num.signed)
		yt := C.Resize(in.iterm(*y.num), 64, y.num.signed)
		conds = append(conds, C.Eq(xt, yt))
	}
	return mkBool(C.And(conds...))
}

func (in *Interp) textSkeleton(v value) value {
	ts, ok := in.textTokens(v, nil)
	if !ok {
		panic(abortPath{"unsupported", "TextSkeleton of a string that is not a format of decimal numbers"})
	}
	var sb strings.Builder
	for _, t := range mergeToks(ts) {
		if t.num != nil {
			sb.WriteByte('#')
			continue
		}
		// digit runs inside literals are numbers too
		lit := t.lit
		for i := 0; i < len(lit); {
			if (lit[i] >= '0' && lit[i] <= '9') || (lit[i] == '-' && i+1 < len(lit) && lit[i+1] >= '0' && lit[i+1] <= '9') {
				j := i + 1
				for j < len(lit) && lit[j] >= '0' && lit[j] <= '9' {
					j++
				}
				sb.WriteByte('#')
				i = j
				continue
			}
			sb.WriteByte(lit[i])
			i++
		}
	}
	return sb.String()
}
