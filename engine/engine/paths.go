package engine

import (
	"sync/atomic"
	"fmt"
	"os"
	"sort"
	"strings"
	"time"

	"gosym/smt"
)

// abortPath is panicked (Go panic) to end the current path.
type abortPath struct {
	kind string // "unsupported" | "unwind" | "infeasible" | "violation" | "unknown" | "harness-error"
	msg  string
}

// targetPanic is a panic of the interpreted program.
type targetPanic struct {
	v     value
	stack string
}

func (p targetPanic) String() string { return "target panic" }

type Input struct {
	Name string
	Term *smt.Term
}

type Violation struct {
	Harness  string                       `json:"harness"`
	Msg      string                       `json:"msg"`
	Kind     string                       `json:"kind"` // "assert" | "panic"
	Script   []int                        `json:"script"`
	Vars     map[string]string            `json:"vars"` // name -> hex
	Known    string                       `json:"known,omitempty"`
	Stack    string                       `json:"stack,omitempty"`
	UF       bool                         `json:"uf_abstracted,omitempty"`
	Choices  []int                        `json:"choices"`
	Arrs     map[string]map[string]string `json:"arrs,omitempty"`
	Pkg      string                       `json:"pkg,omitempty"`
	Func     string                       `json:"func,omitempty"`
	Property string                       `json:"property,omitempty"`
	Params   map[string]int               `json:"params,omitempty"`
}

type Limits struct {
	FeasMS   int
	IncrMS   int
	ObligMS  int
	MaxSteps int64
	Unwind   int
}

// Path is the state of one explored path.
type Path struct {
	C      *smt.Ctx
	S      *smt.Solver
	X      *Explorer
	script []int
	pos    int
	alts   [][]int
	pcond  []*smt.Term
	names  map[string]int
	Inputs []Input

	known      map[string]*smt.Term // open known-finding predicates active on this path
	knownOrder []string

	out      []value // output log (fmt.Print*)
	observed []string
	reached  map[string]bool
	mustFail []mustFail

	nObl, nDischarged, nTrivial, nUnknown int
	nFeasQ, nDecisions                    int
	steps                                 int64
	violations                            []Violation
	knownHits                             map[string]Violation
	samples                               []string
	assumed                               bool
	loopCount                             map[loopKey]int
	sub                                   *subExplore
	pinned                                map[string]uint64 // concrete-mode input values (self-test)
	concrete                              bool
	choices                               []int
	noFork                                int
	inLines                               []value
	inPos                                 int
	termHeight                            int
	selects                               []selectNote
	batch                                 []pendingObl
	elfFile, elfOpenFails                 value
	blobs                                 map[*value]blob
	allConds                              []*smt.Term
	nSkipped                              int
}

type mustFail struct {
	msg string
	ok  bool
}

type loopKey struct {
	fr  *frame
	blk int
}

func (p *Path) pcTerm() *smt.Term { return p.C.And(p.pcond...) }

// assume adds c to the path condition.
func (p *Path) assume(c *smt.Term) {
	if c.IsTrue() {
		return
	}
	p.pcond = append(p.pcond, c)
	if p.sub == nil {
		p.allConds = append(p.allConds, c)
	}
	if p.sub != nil {
		p.sub.conds = append(p.sub.conds, c)
	}
	p.S.Assert(c)
}

// check asks whether pc ∧ extra is satisfiable.
func (p *Path) check(extra *smt.Term, ms int) (smt.Result, string) {
	if extra.IsFalse() {
		return smt.Unsat, ""
	}
	p.S.Push()
	p.S.Assert(extra)
	r, why := p.S.Check(ms)
	p.S.Pop()
	return r, why
}

// solve decides satisfiability of pc ∧ extra: a short incremental attempt,
// then a fresh non-incremental solver process with the full budget.
// wantModel: on Sat return the input assignment.
func (p *Path) solve(extra *smt.Term, ms int, wantModel bool) (smt.Result, map[string]string, map[string]map[string]string, string) {
	if extra.IsFalse() {
		return smt.Unsat, nil, nil, ""
	}
	quick := 400
	if wantModel || ms > p.X.Lim.FeasMS {
		quick = 2000 // obligations: give the warmed-up incremental session a fair chance
		if p.X.Lim.IncrMS > 0 {
			quick = p.X.Lim.IncrMS
		}
	}
	if quick > ms {
		quick = ms
	}
	t0 := time.Now()
	p.S.Push()
	p.S.Assert(extra)
	r, why := p.S.Check(quick)
	p.X.addTime(wantModel, time.Since(t0))
	if r == smt.Sat && wantModel {
		m, arrs, err := p.model()
		p.S.Pop()
		if err == nil {
			return smt.Sat, m, arrs, ""
		}
		r, why = smt.Unknown, err.Error()
	} else {
		p.S.Pop()
	}
	if r == smt.Unsat {
		p.crossCheck(extra)
	}
	if r != smt.Unknown {
		return r, nil, nil, why
	}
	// one-shot
	asserts := append(append([]*smt.Term(nil), p.pcond...), extra)
	var want []*smt.Term
	if wantModel {
		for _, in := range p.Inputs {
			if in.Term.S.K != smt.KArr {
				want = append(want, in.Term)
			}
		}
		for _, sn := range p.selects {
			want = append(want, sn.idx, p.C.Select(sn.arr, sn.idx))
		}
	}
	p.X.countOneShot()
	r, vals, why, el, winner := smt.Race(p.X.raceSolvers(), asserts, want, ms)
	p.X.countWinner(winner)
	p.S.Time += el
	p.S.Queries++
	if r == smt.Sat && wantModel {
		m := map[string]string{}
		i := 0
		for _, in := range p.Inputs {
			if in.Term.S.K == smt.KArr {
				continue
			}
			m[in.Name] = vals[i]
			i++
		}
		arrs := map[string]map[string]string{}
		for _, sn := range p.selects {
			name := sn.arr.Name
			if arrs[name] == nil {
				arrs[name] = map[string]string{}
			}
			arrs[name][vals[i]] = vals[i+1]
			i += 2
		}
		return r, m, arrs, why
	}
	return r, nil, nil, why
}

// crossCheck re-decides a sample of the incremental session's "unsat" answers
// (obligations and branch prunings alike) in a fresh process of the other z3
// release. A "sat" there is a disagreement between the session and a one-shot
// run: the path is abandoned as inconclusive, never counted as proved.
func (p *Path) crossCheck(extra *smt.Term) {
	every := p.X.CrossEvery
	if every <= 0 {
		return
	}
	if atomic.AddInt64(&p.X.crossCtr, 1)%int64(every) != 0 {
		return
	}
	// bounded cost: at most 400 samples per harness, and none any more once
	// 25 samples could not be decided one-shot within the cap
	if atomic.LoadInt64(&p.X.crossAgreed)+atomic.LoadInt64(&p.X.crossUndecided) >= 400 || atomic.LoadInt64(&p.X.crossUndecided) >= 25 {
		return
	}
	asserts := append(append([]*smt.Term(nil), p.pcond...), extra)
	r, _, _, _ := smt.OneShot("z3-new", asserts, nil, 2000)
	switch r {
	case smt.Unsat:
		atomic.AddInt64(&p.X.crossAgreed, 1)
	case smt.Sat:
		atomic.AddInt64(&p.X.crossDisagreed, 1)
		if d := os.Getenv("GOSYM_DUMP"); d != "" {
			os.WriteFile(fmt.Sprintf("%s/disagree-%d.smt2", d, time.Now().UnixNano()), []byte(smt.Script(asserts)), 0o644)
		}
		panic(abortPath{"solver-disagreement", "incremental z3 4.8.12 said unsat, one-shot z3 5.1.0 says sat"})
	default:
		atomic.AddInt64(&p.X.crossUndecided, 1)
	}
}

// decide returns the branch to follow for a symbolic condition, forking.
func (p *Path) decide(c *smt.Term) bool {
	if c.IsConst() {
		return c.IsTrue()
	}
	if p.noFork > 0 {
		panic(abortPath{"nofork", "fork while speculating"})
	}
	if len(p.batch) > 0 && p.sub == nil {
		p.flushBatch()
	}
	p.nDecisions++
	if p.sub != nil {
		return p.sub.decide(p, c)
	}
	if p.pos < len(p.script) {
		d := p.script[p.pos]
		p.pos++
		if d == 1 {
			p.assume(c)
			return true
		}
		p.assume(p.C.Not(c))
		return false
	}
	t, f := p.feasible2(c)
	switch {
	case t && f:
		alt := append(append([]int(nil), p.script...), 0)
		p.alts = append(p.alts, alt)
		p.script = append(p.script, 1)
		p.pos++
		p.assume(c)
		return true
	case t:
		p.script = append(p.script, 1)
		p.pos++
		p.assume(c)
		return true
	case f:
		p.script = append(p.script, 0)
		p.pos++
		p.assume(p.C.Not(c))
		return false
	}
	panic(abortPath{"infeasible", "both branches infeasible"})
}

// feasible2 reports feasibility of c and ¬c under the path condition.
// unknown counts as feasible.
func (p *Path) feasible2(c *smt.Term) (bool, bool) {
	p.nFeasQ++
	r, _, _, _ := p.solve(c, p.X.Lim.FeasMS, false)
	if r == smt.Unsat {
		return false, true // pc is satisfiable by construction
	}
	p.nFeasQ++
	r2, _, _, _ := p.solve(p.C.Not(c), p.X.Lim.FeasMS, false)
	return true, r2 != smt.Unsat
}

// choose forks n ways without the solver.
func (p *Path) choose(n int) int {
	if n <= 0 {
		panic(abortPath{"harness-error", "Choose(n<=0)"})
	}
	if p.sub != nil {
		panic(abortPath{"harness-error", "Choose inside merged callee"})
	}
	p.flushBatch()
	var d int
	if p.pos < len(p.script) {
		d = p.script[p.pos]
		p.pos++
	} else {
		for i := n - 1; i >= 1; i-- {
			alt := append(append([]int(nil), p.script...), i)
			p.alts = append(p.alts, alt)
		}
		p.script = append(p.script, 0)
		p.pos++
		d = 0
	}
	p.choices = append(p.choices, d)
	return d
}

func (p *Path) freshName(base string) string {
	n := p.names[base]
	p.names[base] = n + 1
	if n == 0 {
		return base
	}
	return fmt.Sprintf("%s#%d", base, n)
}

func (p *Path) input(base string, s smt.Sort) *smt.Term {
	name := p.freshName(base)
	if p.concrete {
		v := p.pinned[name]
		if s.K == smt.KBool {
			return p.C.Bool(v != 0)
		}
		return p.C.BVConst(v, s.W)
	}
	t := p.C.Var(name, s)
	p.Inputs = append(p.Inputs, Input{name, t})
	return t
}

// model extracts the input assignment after a Sat answer (solver still in the
// scope that was checked).
func (p *Path) model() (map[string]string, map[string]map[string]string, error) {
	var ts []*smt.Term
	for _, in := range p.Inputs {
		if in.Term.S.K != smt.KArr {
			ts = append(ts, in.Term)
		}
	}
	for _, sn := range p.selects {
		ts = append(ts, sn.idx, p.C.Select(sn.arr, sn.idx))
	}
	vals, err := p.S.Values(ts)
	if err != nil {
		return nil, nil, err
	}
	m := map[string]string{}
	i := 0
	for _, in := range p.Inputs {
		if in.Term.S.K == smt.KArr {
			continue
		}
		m[in.Name] = vals[i]
		i++
	}
	arrs := map[string]map[string]string{}
	for _, sn := range p.selects {
		name := sn.arr.Name
		if arrs[name] == nil {
			arrs[name] = map[string]string{}
		}
		arrs[name][vals[i]] = vals[i+1]
		i += 2
	}
	return m, arrs, nil
}

// obligation checks that cond holds on every input of this path.
type pendingObl struct {
	cond  *smt.Term
	msg   string
	kind  string
	stack string
}

// obligation records that cond must hold on every input of this path.
// Obligations stated one after another without an intervening branch are
// discharged by one query (flushBatch) under the current path condition.
func (p *Path) obligation(cond *smt.Term, msg, kind, stack string) {
	if cond.IsTrue() {
		p.nTrivial++
		return
	}
	p.nObl++
	p.batch = append(p.batch, pendingObl{cond: cond, msg: msg, kind: kind, stack: stack})
	if cond.IsFalse() {
		p.flushBatch()
	}
}

func (p *Path) knownPreds() []*smt.Term {
	var preds []*smt.Term
	for _, id := range p.knownOrder {
		preds = append(preds, p.known[id])
	}
	return preds
}

// flushBatch discharges the batched obligations: is pc ∧ ¬(c1 ∧ … ∧ cn)
// satisfiable (outside the open known-finding predicates)?
func (p *Path) flushBatch() {
	if len(p.batch) == 0 {
		return
	}
	batch := p.batch
	p.batch = nil
	C := p.C
	ms := p.X.Lim.ObligMS
	var cs []*smt.Term
	for _, b := range batch {
		cs = append(cs, b.cond)
	}
	conj := C.And(cs...)
	notKnown := C.Not(C.Or(p.knownPreds()...))
	q := C.And(C.Not(conj), notKnown)
	if len(p.samples) < 3 {
		p.samples = append(p.samples, fmt.Sprintf("[%d obligation(s), first: %s] pc=%s ; negated obligation=%s", len(batch), batch[0].msg, clip(p.pcTerm().String(), 600), clip(q.String(), 800)))
	}
	start := time.Now()
	bms := ms
	if len(batch) > 1 && bms > 10000 {
		bms = 10000 // a batch that is not settled quickly is split into its obligations
	}
	r, m, arrs, why := p.solve(q, bms, true)
	switch {
	case r == smt.Unsat:
		p.nDischarged += len(batch)
	case len(batch) == 1 && r == smt.Sat:
		p.recordViolation(batch[0], m, arrs)
	case len(batch) == 1:
		p.unknownObl(batch[0], why, start, q)
	default:
		// locate the failing / undecided obligation(s) one at a time, in order
		for _, b := range batch {
			qi := C.And(C.Not(b.cond), notKnown)
			ri, mi, ai, whyi := p.solve(qi, ms, true)
			switch ri {
			case smt.Unsat:
				p.nDischarged++ // implied by the path condition: nothing to add
			case smt.Sat:
				p.recordViolation(b, mi, ai)
			default:
				p.unknownObl(b, whyi, start, qi)
				p.assume(b.cond)
			}
		}
	}
	// witnesses for the open known findings
	for _, id := range p.knownOrder {
		if _, seen := p.knownHits[id]; seen {
			continue
		}
		for _, b := range batch {
			r, m, arrs, _ := p.solve(C.And(C.Not(b.cond), p.known[id]), ms, true)
			if r == smt.Sat {
				p.knownHits[id] = Violation{Harness: p.X.Harness, Msg: b.msg, Kind: b.kind, Script: p.fullScript(), Vars: m, Arrs: arrs, Known: id, Stack: b.stack, Choices: append([]int(nil), p.choices...)}
				break
			}
		}
	}
	// continue under the assumption that the obligations hold
	if conj.IsFalse() {
		panic(abortPath{"stopped", batch[len(batch)-1].msg})
	}
	if len(p.knownOrder) > 0 {
		if r2, _ := p.check(conj, p.X.Lim.FeasMS); r2 == smt.Unsat {
			panic(abortPath{"stopped", "nothing left after known-finding weakening"})
		}
	}
	if r != smt.Unsat || len(p.knownOrder) > 0 {
		// not proved (or proved only outside the known findings): continue under
		// the assumption; a proved obligation is implied by the path condition
		p.assume(conj)
	}
}

func (p *Path) recordViolation(b pendingObl, m map[string]string, arrs map[string]map[string]string) {
	v := Violation{Harness: p.X.Harness, Msg: b.msg, Kind: b.kind, Script: p.fullScript(), Vars: m, Arrs: arrs, Stack: b.stack, UF: p.C.AbstractMulDiv, Choices: append([]int(nil), p.choices...)}
	p.violations = append(p.violations, v)
	if d := os.Getenv("GOSYM_DUMP"); d != "" {
		os.WriteFile(fmt.Sprintf("%s/sat-%d.smt2", d, time.Now().UnixNano()), []byte(smt.Script(append(append([]*smt.Term(nil), p.pcond...), p.C.Not(b.cond)))), 0o644)
	}
	panic(abortPath{"violation", b.msg})
}

func (p *Path) unknownObl(b pendingObl, why string, start time.Time, q *smt.Term) {
	p.nUnknown++
	p.X.note(fmt.Sprintf("obligation %q: %s after %v", b.msg, why, time.Since(start).Round(time.Millisecond)))
	if d := os.Getenv("GOSYM_DUMP"); d != "" {
		os.WriteFile(fmt.Sprintf("%s/unknown-%d.smt2", d, time.Now().UnixNano()), []byte(smt.Script(append(append([]*smt.Term(nil), p.pcond...), q))), 0o644)
	}
}

func (p *Path) fullScript() []int {
	return append([]int(nil), p.script[:p.pos]...)
}

func clip(s string, n int) string {
	if len(s) > n {
		return s[:n] + "…"
	}
	return s
}

// ---- nested exploration used by callee merging

type subExplore struct {
	script []int
	pos    int
	alts   [][]int
	conds  []*smt.Term
}

func (s *subExplore) decide(p *Path, c *smt.Term) bool {
	if s.pos < len(s.script) {
		d := s.script[s.pos]
		s.pos++
		if d == 1 {
			p.assume(c)
			return true
		}
		p.assume(p.C.Not(c))
		return false
	}
	t, f := p.feasible2(c)
	d := 1
	switch {
	case t && f:
		s.alts = append(s.alts, append(append([]int(nil), s.script...), 0))
	case t:
	case f:
		d = 0
	default:
		panic(abortPath{"infeasible", "both branches infeasible (sub)"})
	}
	s.script = append(s.script, d)
	s.pos++
	if d == 1 {
		p.assume(c)
		return true
	}
	p.assume(p.C.Not(c))
	return false
}

// ---- results

type PathResult struct {
	Script      []int
	Alts        [][]int
	Status      string // "ok" | abort kind | "panic"
	Msg         string
	Violations  []Violation
	KnownHits   map[string]Violation
	Obl         int
	Discharged  int
	Trivial     int
	Unknown     int
	FeasQ       int
	Decisions   int
	Steps       int64
	Reached     []string
	MustFail    []mustFail
	Samples     []string
	Observed    []string
	SolverTime  time.Duration
	SolverCalls int
	Funcs       map[string]int
}

func sortedKeys(m map[string]bool) []string {
	var ks []string
	for k := range m {
		ks = append(ks, k)
	}
	sort.Strings(ks)
	return ks
}

func scriptString(s []int) string {
	var sb strings.Builder
	for _, d := range s {
		fmt.Fprintf(&sb, "%d.", d)
	}
	return sb.String()
}

type blob struct {
	data value
	fail value
}
