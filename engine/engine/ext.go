package engine

import (
	"fmt"
	"go/types"
	"math"
	"sort"
	"strings"

	"gosym/smt"

	"golang.org/x/tools/go/ssa"
)

type externalFn func(in *Interp, fr *frame, args []value) value

var externals = map[string]externalFn{}

const symPkg = "mltwist/internal/zzverif/sym"

func init() {
	reg := func(name string, f externalFn) { externals[name] = f }
	s := func(n string) string { return symPkg + "." + n }

	// ---- symbolic inputs
	for _, d := range []struct {
		n      string
		bits   uint8
		signed bool
	}{{"Uint8", 8, false}, {"Uint16", 16, false}, {"Uint32", 32, false}, {"Uint64", 64, false},
		{"Int8", 8, true}, {"Int16", 16, true}, {"Int32", 32, true}, {"Int64", 64, true}, {"Int", 64, true}} {
		d := d
		reg(s(d.n), func(in *Interp, fr *frame, args []value) value {
			t := in.p.input(args[0].(string), smt.BV(int(d.bits)))
			return mkIntTerm(d.bits, d.signed, t)
		})
	}
	reg(s("SmallBase"), func(in *Interp, fr *frame, args []value) value {
		t := in.p.input(args[0].(string), smt.BV(64))
		if !t.IsConst() {
			if in.p.C.SmallBases == nil {
				in.p.C.SmallBases = map[int]bool{}
			}
			in.p.C.SmallBases[t.ID] = true
			in.p.assume(in.p.C.Cmp(smt.OpBvUle, t, in.p.C.BVConst(1<<62, 64)))
		}
		return mkIntTerm(64, false, t)
	})
	reg(s("Bool"), func(in *Interp, fr *frame, args []value) value {
		return mkBool(in.p.input(args[0].(string), smt.BoolSort))
	})
	reg(s("Bytes"), func(in *Interp, fr *frame, args []value) value {
		n := int(in.concInt(args[1], "Bytes length", 1))
		r := make([]value, n)
		for i := range r {
			r[i] = mkIntTerm(8, false, in.p.input(fmt.Sprintf("%s[%d]", args[0].(string), i), smt.BV(8)))
		}
		return r
	})
	reg(s("String"), func(in *Interp, fr *frame, args []value) value {
		n := int(in.concInt(args[1], "String length", 1))
		r := make([]ival, n)
		for i := range r {
			r[i] = mkIntTerm(8, false, in.p.input(fmt.Sprintf("%s[%d]", args[0].(string), i), smt.BV(8)))
		}
		return mkStr(r)
	})
	reg(s("Choose"), func(in *Interp, fr *frame, args []value) value {
		return goInt(in.p.choose(int(in.concInt(args[0], "Choose bound", 1))))
	})
	reg(s("Assume"), func(in *Interp, fr *frame, args []value) value {
		in.p.flushBatch()
		c := in.bterm(args[0])
		if c.IsFalse() {
			panic(abortPath{"infeasible", "assumption false"})
		}
		if c.IsTrue() {
			return nil
		}
		in.p.assume(c)
		in.p.nFeasQ++
		if r, _, _, _ := in.p.solve(in.p.C.True(), in.x.Lim.FeasMS, false); r == smt.Unsat {
			panic(abortPath{"infeasible", "assumption unsatisfiable"})
		}
		return nil
	})
	reg(s("Assert"), func(in *Interp, fr *frame, args []value) value {
		in.p.obligation(in.bterm(args[0]), in.str(args[1]), "assert", in.stackString())
		return nil
	})
	reg(s("MustFail"), func(in *Interp, fr *frame, args []value) value {
		in.p.flushBatch()
		c := in.bterm(args[0])
		msg := in.str(args[1])
		ok := false
		if !c.IsTrue() {
			r, _, _, _ := in.p.solve(in.p.C.Not(c), in.x.Lim.ObligMS, false)
			ok = r == smt.Sat
		}
		in.p.mustFail = append(in.p.mustFail, mustFail{msg, ok})
		return nil
	})
	reg(s("Reach"), func(in *Interp, fr *frame, args []value) value {
		in.p.reached[in.str(args[0])] = true
		return nil
	})
	reg(s("Known"), func(in *Interp, fr *frame, args []value) value {
		in.p.flushBatch()
		id := in.str(args[0])
		if !in.x.OpenKnown[id] {
			return nil
		}
		c := in.bterm(args[1])
		if old, ok := in.p.known[id]; ok {
			c = in.p.C.Or(old, c)
		} else {
			in.p.knownOrder = append(in.p.knownOrder, id)
		}
		in.p.known[id] = c
		return nil
	})
	reg(s("NoPanic"), func(in *Interp, fr *frame, args []value) value {
		if tp, panicked := in.callCatching(fr, args[0]); panicked {
			msg := "unexpected panic: " + in.panicText(tp)
			in.p.obligation(in.p.C.False(), msg, "panic", tp.stack)
		}
		return nil
	})
	reg(s("Panics"), func(in *Interp, fr *frame, args []value) value {
		_, panicked := in.callCatching(fr, args[0])
		return panicked
	})
	reg(s("Observe"), func(in *Interp, fr *frame, args []value) value {
		in.p.observed = append(in.p.observed, fmt.Sprintf("%s=%s", in.str(args[0]), in.render(args[1])))
		return nil
	})
	reg(s("And"), func(in *Interp, fr *frame, args []value) value {
		return mkBool(in.p.C.And(in.bterm(args[0]), in.bterm(args[1])))
	})
	reg(s("Or"), func(in *Interp, fr *frame, args []value) value {
		return mkBool(in.p.C.Or(in.bterm(args[0]), in.bterm(args[1])))
	})
	reg(s("Not"), func(in *Interp, fr *frame, args []value) value {
		return mkBool(in.p.C.Not(in.bterm(args[0])))
	})
	reg(s("Implies"), func(in *Interp, fr *frame, args []value) value {
		return mkBool(in.p.C.Implies(in.bterm(args[0]), in.bterm(args[1])))
	})
	for _, n := range []string{"IteU64", "IteInt", "IteU8", "IteBool", "BVIte", "ArrIte"} {
		reg(s(n), func(in *Interp, fr *frame, args []value) value { return in.ite(args[0], args[1], args[2]) })
	}
	reg(s("Param"), func(in *Interp, fr *frame, args []value) value {
		if v, ok := in.x.Params[in.str(args[0])]; ok {
			return goInt(v)
		}
		return args[1]
	})
	reg(s("SameText"), func(in *Interp, fr *frame, args []value) value { return in.sameText(args[0], args[1]) })
	reg(s("TextSkeleton"), func(in *Interp, fr *frame, args []value) value { return in.textSkeleton(args[0]) })
	reg(s("KeyIndex"), func(in *Interp, fr *frame, args []value) value {
		fail := tuple{"", mkInt(64, false, 0), false}
		switch k := args[0].(type) {
		case *sstr:
			if k.b == nil && k.lazy != nil {
				if pre, x, ok := k.lazy.keyParts(); ok {
					return tuple{pre, mkIntTerm(64, false, in.p.C.Resize(in.iterm(x), 64, false)), true}
				}
			}
			return fail
		case string:
			i := len(k)
			for i > 0 && k[i-1] >= '0' && k[i-1] <= '9' {
				i--
			}
			if i == len(k) || len(k)-i > 18 {
				return fail
			}
			var n uint64
			for _, ch := range k[i:] {
				n = n*10 + uint64(ch-'0')
			}
			return tuple{k[:i], mkInt(64, false, n), true}
		}
		return fail
	})
	reg(s("Reset"), func(in *Interp, fr *frame, args []value) value { return nil })
	reg(s("SetInputLines"), func(in *Interp, fr *frame, args []value) value {
		in.p.inLines = nil
		for _, l := range args[0].([]value) {
			in.p.inLines = append(in.p.inLines, l)
		}
		in.p.inPos = 0
		return nil
	})
	reg(s("OutputLines"), func(in *Interp, fr *frame, args []value) value {
		return goInt(in.outputNewlines())
	})
	reg(s("RestoreOutput"), func(in *Interp, fr *frame, args []value) value { return nil })
	reg(s("ResetOutput"), func(in *Interp, fr *frame, args []value) value {
		in.p.out = nil
		return nil
	})

	// ---- sym.BV
	reg(s("BVConst"), func(in *Interp, fr *frame, args []value) value {
		w := int(in.concInt(args[1], "BV width", 1))
		return bvval{in.p.C.Resize(in.iterm(args[0].(ival)), w, false)}
	})
	reg(s("BVVar"), func(in *Interp, fr *frame, args []value) value {
		w := int(in.concInt(args[1], "BV width", 1))
		return bvval{in.p.input(args[0].(string), smt.BV(w))}
	})
	for _, n := range []string{"BV8", "BV16", "BV32", "BV64"} {
		reg(s(n), func(in *Interp, fr *frame, args []value) value { return bvval{in.iterm(args[0].(ival))} })
	}
	reg(s("BVBool"), func(in *Interp, fr *frame, args []value) value {
		w := int(in.concInt(args[1], "BV width", 1))
		C := in.p.C
		return bvval{C.Ite(in.bterm(args[0]), C.BVConst(1, w), C.BVConst(0, w))}
	})
	reg(s("BVBytes"), func(in *Interp, fr *frame, args []value) value {
		bs := args[0].([]value)
		if len(bs) == 0 {
			panic(abortPath{"harness-error", "BVBytes of empty slice"})
		}
		C := in.p.C
		t := in.iterm(bs[0].(ival))
		for i := 1; i < len(bs); i++ {
			t = C.Concat(in.iterm(bs[i].(ival)), t)
		}
		return bvval{t}
	})
	m := func(n string) string { return "(" + symPkg + ".BV)." + n }
	bin := func(n string, op smt.Op) {
		reg(m(n), func(in *Interp, fr *frame, args []value) value {
			return bvval{in.p.C.Bin(op, args[0].(bvval).t, args[1].(bvval).t)}
		})
	}
	bin("Add", smt.OpBvAdd)
	bin("Sub", smt.OpBvSub)
	bin("Mul", smt.OpBvMul)
	bin("UDiv", smt.OpBvUDiv)
	bin("URem", smt.OpBvURem)
	bin("SDiv", smt.OpBvSDiv)
	bin("SRem", smt.OpBvSRem)
	bin("And", smt.OpBvAnd)
	bin("Or", smt.OpBvOr)
	bin("Xor", smt.OpBvXor)
	bin("Shl", smt.OpBvShl)
	bin("LShr", smt.OpBvLshr)
	bin("AShr", smt.OpBvAshr)
	cmp := func(n string, op smt.Op) {
		reg(m(n), func(in *Interp, fr *frame, args []value) value {
			return mkBool(in.p.C.Cmp(op, args[0].(bvval).t, args[1].(bvval).t))
		})
	}
	cmp("Ult", smt.OpBvUlt)
	cmp("Ule", smt.OpBvUle)
	cmp("Slt", smt.OpBvSlt)
	cmp("Sle", smt.OpBvSle)
	reg(m("Eq"), func(in *Interp, fr *frame, args []value) value {
		return mkBool(in.p.C.Eq(args[0].(bvval).t, args[1].(bvval).t))
	})
	reg(m("Not"), func(in *Interp, fr *frame, args []value) value { return bvval{in.p.C.BvNot(args[0].(bvval).t)} })
	reg(m("Neg"), func(in *Interp, fr *frame, args []value) value { return bvval{in.p.C.BvNeg(args[0].(bvval).t)} })
	reg(m("Width"), func(in *Interp, fr *frame, args []value) value { return goInt(args[0].(bvval).t.S.W) })
	reg(m("Concat"), func(in *Interp, fr *frame, args []value) value {
		return bvval{in.p.C.Concat(args[0].(bvval).t, args[1].(bvval).t)}
	})
	reg(m("Extract"), func(in *Interp, fr *frame, args []value) value {
		hi := int(in.concInt(args[1], "extract hi", 1))
		lo := int(in.concInt(args[2], "extract lo", 1))
		return bvval{in.p.C.Extract(args[0].(bvval).t, hi, lo)}
	})
	reg(m("ZExt"), func(in *Interp, fr *frame, args []value) value {
		return bvval{in.p.C.Resize(args[0].(bvval).t, int(in.concInt(args[1], "width", 1)), false)}
	})
	reg(m("SExt"), func(in *Interp, fr *frame, args []value) value {
		return bvval{in.p.C.Resize(args[0].(bvval).t, int(in.concInt(args[1], "width", 1)), true)}
	})
	reg(m("Uint64"), func(in *Interp, fr *frame, args []value) value {
		return mkIntTerm(64, false, in.p.C.Resize(args[0].(bvval).t, 64, false))
	})
	reg(m("Uint8"), func(in *Interp, fr *frame, args []value) value {
		return mkIntTerm(8, false, in.p.C.Resize(args[0].(bvval).t, 8, false))
	})
	reg(m("Byte"), func(in *Interp, fr *frame, args []value) value {
		i := int(in.concInt(args[1], "byte index", 1))
		return mkIntTerm(8, false, in.p.C.Extract(args[0].(bvval).t, 8*i+7, 8*i))
	})
	reg(m("Hex"), func(in *Interp, fr *frame, args []value) value {
		t := args[0].(bvval).t
		if t.IsConst() {
			return t.Val.Text(16)
		}
		return "<symbolic>"
	})

	// ---- sym.Arr
	reg(s("NewArr"), func(in *Interp, fr *frame, args []value) value {
		ew := int(in.concInt(args[1], "element width", 1))
		name := in.p.freshName(args[0].(string))
		t := in.p.C.Var(name, smt.Sort{K: smt.KArr, W: 64, Elem: ew})
		in.p.Inputs = append(in.p.Inputs, Input{name, t})
		return arrval{t}
	})
	am := func(n string) string { return "(" + symPkg + ".Arr)." + n }
	reg(am("Select"), func(in *Interp, fr *frame, args []value) value {
		a, idx := args[0].(arrval).t, args[1].(bvval).t
		r := in.p.C.Select(a, idx)
		in.p.noteSelect(a, idx, r)
		return bvval{r}
	})
	reg(am("Store"), func(in *Interp, fr *frame, args []value) value {
		return arrval{in.p.C.Store(args[0].(arrval).t, args[1].(bvval).t, args[2].(bvval).t)}
	})

	registerStd(reg)
}

// callCatching calls a func() value and reports a target panic.
func (in *Interp) callCatching(fr *frame, f value) (tp targetPanic, panicked bool) {
	savedTop, savedDepth := in.top, in.depth
	defer func() {
		if r := recover(); r != nil {
			if t, ok := r.(targetPanic); ok {
				in.top, in.depth = savedTop, savedDepth
				tp, panicked = t, true
				return
			}
			panic(r)
		}
	}()
	in.call(fr, fr.callpos, f, nil)
	return
}

func (in *Interp) panicText(tp targetPanic) string {
	switch v := tp.v.(type) {
	case string:
		return v
	case iface:
		if s, ok := v.v.(string); ok {
			return s
		}
		if v.t != nil {
			if r, ok := in.tryErrorString(v); ok {
				return r
			}
		}
		return fmt.Sprintf("%v", in.render(v.v))
	}
	return in.render(tp.v)
}

// tryErrorString calls Error() or String() on an interface value if present.
func (in *Interp) tryErrorString(v iface) (res string, ok bool) {
	defer func() {
		if r := recover(); r != nil {
			if _, isAbort := r.(abortPath); isAbort {
				res, ok = "<error text unavailable>", true
				return
			}
			panic(r)
		}
	}()
	for _, name := range []string{"Error", "String"} {
		ms := in.prog.MethodSets.MethodSet(v.t)
		sel := ms.Lookup(nil, name)
		if sel == nil {
			continue
		}
		sig := sel.Type().(*types.Signature)
		if sig.Params().Len() != 0 || sig.Results().Len() != 1 {
			continue
		}
		fn := in.prog.MethodValue(sel)
		if fn == nil {
			continue
		}
		in.p.noFork++
		r := func() value {
			defer func() { in.p.noFork-- }()
			return in.call(in.top, 0, fn, []value{v.v})
		}()
		return in.strApprox(r), true
	}
	return "", false
}

// str returns a concrete Go string; symbolic bytes are an error.
func (in *Interp) str(v value) string {
	switch v := v.(type) {
	case string:
		return v
	case *sstr:
		return in.strApprox(v)
	}
	panic(fmt.Sprintf("str: %T", v))
}

// strApprox renders a possibly symbolic string for messages ('?' for symbolic bytes).
func (in *Interp) strApprox(v value) string {
	switch v := v.(type) {
	case string:
		return v
	case *sstr:
		if v.lazy != nil && v.b == nil {
			return v.lazy.approx(in)
		}
		var sb strings.Builder
		for _, b := range v.b {
			if b.t != nil {
				sb.WriteByte('?')
			} else {
				sb.WriteByte(byte(b.c))
			}
		}
		return sb.String()
	}
	return fmt.Sprintf("%v", v)
}

// render prints a value for traces and messages.
func (in *Interp) render(v value) string {
	switch v := v.(type) {
	case nil:
		return "<nil>"
	case bool:
		return fmt.Sprint(v)
	case sbool:
		return "<sym bool>"
	case ival:
		if v.t != nil {
			return "<sym>"
		}
		if v.signed {
			return fmt.Sprint(v.sext())
		}
		return fmt.Sprint(v.c)
	case string:
		return v
	case *sstr:
		return in.strApprox(v)
	case float64:
		return fmt.Sprint(v)
	case []value:
		parts := make([]string, len(v))
		for i, e := range v {
			parts[i] = in.render(e)
		}
		return "[" + strings.Join(parts, " ") + "]"
	case array:
		parts := make([]string, len(v))
		for i, e := range v {
			parts[i] = in.render(e)
		}
		return "[" + strings.Join(parts, " ") + "]"
	case structure:
		parts := make([]string, len(v))
		for i, e := range v {
			parts[i] = in.render(e)
		}
		return "{" + strings.Join(parts, " ") + "}"
	case iface:
		if v.t == nil {
			return "<nil>"
		}
		if s, ok := in.tryErrorString(v); ok {
			return s
		}
		return in.render(v.v)
	case *value:
		if v == nil {
			return "<nil>"
		}
		return "&" + in.render(*v)
	case bvval:
		if v.t.IsConst() {
			return v.t.Val.Text(16)
		}
		return "<sym bv>"
	}
	return fmt.Sprintf("<%T>", v)
}

func (p *Path) noteSelect(arr, idx, res *smt.Term) {
	// remember reads of input arrays so that models can report their contents
	base := arr
	for base.Op == smt.OpStore || base.Op == smt.OpIte {
		if base.Op == smt.OpStore {
			base = base.Args[0]
		} else {
			// ite of arrays: note both
			p.noteSelect(base.Args[1], idx, res)
			base = base.Args[2]
		}
	}
	if base.Op == smt.OpVar {
		p.selects = append(p.selects, selectNote{base, idx})
	}
}

type selectNote struct {
	arr, idx *smt.Term
}

// ---- standard library models

func registerStd(reg func(string, externalFn)) {
	reg("fmt.Sprintf", func(in *Interp, fr *frame, args []value) value {
		return in.sprintf(in.str(args[0]), args[1].([]value))
	})
	reg("fmt.Sprint", func(in *Interp, fr *frame, args []value) value {
		return in.sprint(args[0].([]value), false)
	})
	reg("fmt.Sprintln", func(in *Interp, fr *frame, args []value) value {
		return in.sprint(args[0].([]value), true)
	})
	reg("fmt.Errorf", func(in *Interp, fr *frame, args []value) value {
		format := in.str(args[0])
		va := args[1].([]value)
		msg := in.sprintf(format, va)
		var wrapped value
		// find %w operand
		argi := 0
		for i := 0; i < len(format); i++ {
			if format[i] != '%' {
				continue
			}
			j := i + 1
			for j < len(format) && strings.ContainsRune("+-# 0123456789.", rune(format[j])) {
				j++
			}
			if j < len(format) {
				if format[j] == '%' {
					i = j
					continue
				}
				if format[j] == 'w' && argi < len(va) {
					wrapped = va[argi]
				}
				argi++
				i = j
			}
		}
		return in.mkError(msg, wrapped)
	})
	reg("errors.New", func(in *Interp, fr *frame, args []value) value {
		return in.mkError(args[0], nil)
	})
	reg("errors.Unwrap", func(in *Interp, fr *frame, args []value) value {
		return in.errUnwrap(args[0].(iface))
	})
	reg("errors.Is", func(in *Interp, fr *frame, args []value) value {
		e, target := args[0].(iface), args[1].(iface)
		for n := 0; n < 50; n++ {
			if e.t == nil {
				return target.t == nil
			}
			eq := in.equals(nil, e, target)
			if b, ok := eq.(bool); ok && b {
				return true
			}
			e = in.errUnwrap(e)
			if e.t == nil {
				return false
			}
		}
		return false
	})
	for _, n := range []string{"fmt.Printf", "fmt.Print", "fmt.Println"} {
		n := n
		reg(n, func(in *Interp, fr *frame, args []value) value {
			var sv value
			switch n {
			case "fmt.Printf":
				sv = in.sprintf(in.str(args[0]), args[1].([]value))
			case "fmt.Print":
				sv = in.sprint(args[0].([]value), false)
			default:
				sv = in.sprint(args[0].([]value), true)
			}
			in.p.out = append(in.p.out, sv)
			return tuple{goInt(0), iface{}}
		})
	}
	reg("fmt.Fprintf", func(in *Interp, fr *frame, args []value) value {
		in.p.out = append(in.p.out, in.sprintf(in.str(args[1]), args[2].([]value)))
		return tuple{goInt(0), iface{}}
	})
	reg("os.Exit", func(in *Interp, fr *frame, args []value) value {
		panic(targetPanic{v: fmt.Sprintf("os.Exit(%s)", in.render(args[0])), stack: in.stackString()})
	})
	reg("bytes.Equal", func(in *Interp, fr *frame, args []value) value {
		a, b := args[0].([]value), args[1].([]value)
		if len(a) != len(b) {
			return false
		}
		conds := make([]*smt.Term, len(a))
		for i := range a {
			conds[i] = in.p.C.Eq(in.iterm(a[i].(ival)), in.iterm(b[i].(ival)))
		}
		return mkBool(in.p.C.And(conds...))
	})
	reg("strings.Join", func(in *Interp, fr *frame, args []value) value {
		elems := args[0].([]value)
		if sepc, ok := args[1].(string); ok && !strings.Contains(sepc, "%") {
			lazy := false
			for _, e := range elems {
				if s, ok := e.(*sstr); ok && s.b == nil && s.lazy != nil {
					lazy = true
				}
			}
			if lazy {
				f := strings.Repeat("%s"+sepc, len(elems))
				f = f[:len(f)-len(sepc)]
				return &sstr{lazy: &lazyFmt{format: f, args: append([]value(nil), elems...)}}
			}
		}
		sep := in.sbytes(args[1])
		var out []ival
		for i, e := range elems {
			if i > 0 {
				out = append(out, sep...)
			}
			out = append(out, in.sbytes(e)...)
		}
		return mkStr(out)
	})
	reg("strings.Repeat", func(in *Interp, fr *frame, args []value) value {
		n := in.concInt(args[1], "repeat count", 16)
		if n < 0 {
			panic(targetPanic{v: "strings: negative Repeat count", stack: in.stackString()})
		}
		b := in.sbytes(args[0])
		var out []ival
		for i := int64(0); i < n; i++ {
			out = append(out, b...)
		}
		return mkStr(out)
	})
	reg("strings.Split", func(in *Interp, fr *frame, args []value) value {
		s := in.sbytes(args[0])
		sep := in.sbytes(args[1])
		if len(sep) != 1 || sep[0].t != nil {
			panic(abortPath{"unsupported", "strings.Split with separator other than one concrete byte"})
		}
		var parts []value
		cur := []ival{}
		for _, b := range s {
			isSep := in.p.C.Eq(in.iterm(b), in.iterm(sep[0]))
			if in.p.decide(isSep) {
				parts = append(parts, mkStr(cur))
				cur = []ival{}
			} else {
				cur = append(cur, b)
			}
		}
		parts = append(parts, mkStr(cur))
		return parts
	})
	reg("strings.HasPrefix", func(in *Interp, fr *frame, args []value) value {
		s, p := in.sbytes(args[0]), in.sbytes(args[1])
		if len(s) < len(p) {
			return false
		}
		return in.strEq(mkStr(s[:len(p)]), mkStr(p))
	})
	reg("internal/stringslite.Clone", func(in *Interp, fr *frame, args []value) value { return args[0] })
	reg("strings.Clone", func(in *Interp, fr *frame, args []value) value { return args[0] })
	reg("strings.Contains", func(in *Interp, fr *frame, args []value) value {
		a, aok := args[0].(string)
		b, bok := args[1].(string)
		if !aok || !bok {
			panic(abortPath{"unsupported", "strings.Contains on symbolic strings"})
		}
		return strings.Contains(a, b)
	})
	reg("strings.ToLower", func(in *Interp, fr *frame, args []value) value {
		return strings.ToLower(in.str(args[0]))
	})
	// strings.Builder: the struct's buf field ([]byte) is used directly.
	reg("(*strings.Builder).WriteString", func(in *Interp, fr *frame, args []value) value {
		b := (*args[0].(*value)).(structure)
		buf, _ := b[1].([]value)
		bs := in.sbytes(args[1])
		for _, x := range bs {
			buf = append(buf, x)
		}
		b[1] = buf
		return tuple{goInt(len(bs)), iface{}}
	})
	reg("(*strings.Builder).WriteByte", func(in *Interp, fr *frame, args []value) value {
		b := (*args[0].(*value)).(structure)
		buf, _ := b[1].([]value)
		b[1] = append(buf, args[1])
		return iface{}
	})
	reg("(*strings.Builder).WriteRune", func(in *Interp, fr *frame, args []value) value {
		b := (*args[0].(*value)).(structure)
		buf, _ := b[1].([]value)
		r := args[1].(ival)
		if r.t != nil {
			// ASCII assumed (checked)
			C := in.p.C
			if in.p.decide(C.Cmp(smt.OpBvUle, C.BVConst(0x80, 32), r.t)) {
				panic(abortPath{"unsupported", "WriteRune of symbolic non-ASCII rune"})
			}
			b[1] = append(buf, mkIntTerm(8, false, C.Extract(r.t, 7, 0)))
			return tuple{goInt(1), iface{}}
		}
		s := string(rune(r.sext()))
		for i := 0; i < len(s); i++ {
			buf = append(buf, mkInt(8, false, uint64(s[i])))
		}
		b[1] = buf
		return tuple{goInt(len(s)), iface{}}
	})
	reg("(*strings.Builder).String", func(in *Interp, fr *frame, args []value) value {
		b := (*args[0].(*value)).(structure)
		buf, _ := b[1].([]value)
		out := make([]ival, len(buf))
		for i, x := range buf {
			out[i] = x.(ival)
		}
		return mkStr(out)
	})
	reg("(*strings.Builder).Len", func(in *Interp, fr *frame, args []value) value {
		b := (*args[0].(*value)).(structure)
		buf, _ := b[1].([]value)
		return goInt(len(buf))
	})
	reg("(*strings.Builder).Grow", func(in *Interp, fr *frame, args []value) value { return nil })
	reg("sort.Slice", func(in *Interp, fr *frame, args []value) value {
		sl := args[0].(iface).v.([]value)
		less := args[1]
		// insertion sort; comparator may fork
		for i := 1; i < len(sl); i++ {
			for j := i; j > 0; j-- {
				r := in.call(fr, fr.callpos, less, []value{goInt(j), goInt(j - 1)})
				if !in.p.decide(in.bterm(r)) {
					break
				}
				sl[j], sl[j-1] = sl[j-1], sl[j]
			}
		}
		return nil
	})
	reg("sort.SliceStable", externals["sort.Slice"])
	reg("math.Floor", func(in *Interp, fr *frame, args []value) value { return math.Floor(args[0].(float64)) })
	reg("math.Ceil", func(in *Interp, fr *frame, args []value) value { return math.Ceil(args[0].(float64)) })
	reg("math.Round", func(in *Interp, fr *frame, args []value) value { return math.Round(args[0].(float64)) })

	// regexp: only literal patterns (no metacharacters) are modelled; for those
	// POSIX matching is substring containment
	reg("regexp.CompilePOSIX", func(in *Interp, fr *frame, args []value) value {
		pat := in.str(args[0])
		if strings.ContainsAny(pat, `\.+*?()|[]{}^$`) {
			panic(abortPath{"unsupported", "regexp with metacharacters: " + pat})
		}
		var cell value = structure{pat}
		return tuple{&cell, iface{}}
	})
	reg("regexp.Compile", externals["regexp.CompilePOSIX"])
	reg("(*regexp.Regexp).MatchString", func(in *Interp, fr *frame, args []value) value {
		pat := (*args[0].(*value)).(structure)[0].(string)
		s, ok := args[1].(string)
		if !ok {
			s = in.strApprox(args[1])
			if strings.Contains(s, "?") {
				panic(abortPath{"unsupported", "regexp match on a symbolic string"})
			}
		}
		return strings.Contains(s, pat)
	})
	// debug/elf boundary: the parsed representation comes from the harness
	reg(symPkg+".Native", func(in *Interp, fr *frame, args []value) value { return false })
	reg(symPkg+".SetELF", func(in *Interp, fr *frame, args []value) value {
		in.p.elfFile = args[0]
		if i, ok := args[0].(iface); ok {
			in.p.elfFile = i.v
		}
		in.p.elfOpenFails = args[1]
		return nil
	})
	reg(symPkg+".AttachData", func(in *Interp, fr *frame, args []value) value {
		ptr := args[0].(iface).v.(*value)
		if in.p.blobs == nil {
			in.p.blobs = map[*value]blob{}
		}
		in.p.blobs[ptr] = blob{data: args[1], fail: args[2]}
		return nil
	})
	reg("debug/elf.Open", func(in *Interp, fr *frame, args []value) value {
		if in.p.elfFile == nil {
			panic(abortPath{"harness-error", "elf.Open without sym.SetELF"})
		}
		if b, _ := in.p.elfOpenFails.(bool); b {
			return tuple{(*value)(nil), in.mkError("open failed", nil)}
		}
		return tuple{in.p.elfFile, iface{}}
	})
	reg("(*debug/elf.File).Close", func(in *Interp, fr *frame, args []value) value { return iface{} })
	reg("(*debug/elf.Section).Data", func(in *Interp, fr *frame, args []value) value {
		b, ok := in.p.blobs[args[0].(*value)]
		if !ok {
			panic(abortPath{"harness-error", "Section.Data without sym.AttachData"})
		}
		if f, _ := b.fail.(bool); f {
			return tuple{[]value(nil), in.mkError("read failed", nil)}
		}
		src := b.data.([]value)
		cp := make([]value, len(src))
		copy(cp, src)
		return tuple{cp, iface{}}
	})
	reg("(*debug/elf.Prog).Open", func(in *Interp, fr *frame, args []value) value {
		return iface{t: types.Typ[types.UnsafePointer], v: args[0]}
	})
	reg("io.ReadAll", func(in *Interp, fr *frame, args []value) value {
		r := args[0].(iface)
		ptr, ok := r.v.(*value)
		if !ok {
			panic(abortPath{"unsupported", "io.ReadAll of an unknown reader"})
		}
		b, ok := in.p.blobs[ptr]
		if !ok {
			panic(abortPath{"harness-error", "io.ReadAll without sym.AttachData"})
		}
		if f, _ := b.fail.(bool); f {
			return tuple{[]value(nil), in.mkError("read failed", nil)}
		}
		src := b.data.([]value)
		cp := make([]value, len(src))
		copy(cp, src)
		return tuple{cp, iface{}}
	})
	// terminal / stdin boundary
	reg("golang.org/x/crypto/ssh/terminal.GetSize", func(in *Interp, fr *frame, args []value) value {
		h := in.p.termHeight
		if h == 0 {
			h = 24
		}
		return tuple{goInt(80), goInt(h), iface{}}
	})
	reg("golang.org/x/term.GetSize", externals["golang.org/x/crypto/ssh/terminal.GetSize"])
	reg(symPkg+".SetTermHeight", func(in *Interp, fr *frame, args []value) value {
		in.p.termHeight = int(in.concInt(args[0], "terminal height", 1))
		return nil
	})
	reg("mltwist/internal/consoleui/internal/linereader.ReadLine", func(in *Interp, fr *frame, args []value) value {
		if in.p.inPos >= len(in.p.inLines) {
			return tuple{"", in.ioEOF()}
		}
		l := in.p.inLines[in.p.inPos]
		in.p.inPos++
		return tuple{l, iface{}}
	})
	registerBig(reg)
}

func (in *Interp) ioEOF() value {
	pkg := in.prog.ImportedPackage("io")
	if pkg == nil {
		panic(abortPath{"unsupported", "io package not loaded"})
	}
	g := pkg.Var("EOF")
	cell, ok := in.globals[g]
	if !ok || (*cell).(iface).t == nil {
		e := in.mkError("EOF", nil)
		c := value(e)
		in.globals[g] = &c
		return e
	}
	return *cell
}

// mkError builds an error value (*errors.errorString or *fmt.wrapError).
func (in *Interp) mkError(msg value, wrapped value) value {
	if w, ok := wrapped.(iface); ok && w.t != nil {
		pkg := in.prog.ImportedPackage("fmt")
		T := pkg.Type("wrapError").Type()
		var cell value = structure{msg, w}
		return iface{t: types.NewPointer(T), v: &cell}
	}
	pkg := in.prog.ImportedPackage("errors")
	T := pkg.Type("errorString").Type()
	var cell value = structure{msg}
	return iface{t: types.NewPointer(T), v: &cell}
}

func (in *Interp) errUnwrap(e iface) iface {
	if e.t == nil {
		return iface{}
	}
	ms := in.prog.MethodSets.MethodSet(e.t)
	sel := ms.Lookup(nil, "Unwrap")
	if sel == nil {
		return iface{}
	}
	fn := in.prog.MethodValue(sel)
	if fn == nil {
		return iface{}
	}
	r := in.call(in.top, 0, fn, []value{e.v})
	if ri, ok := r.(iface); ok {
		return ri
	}
	return iface{}
}

func (in *Interp) outputNewlines() int {
	n := 0
	for _, o := range in.p.out {
		switch o := o.(type) {
		case string:
			n += strings.Count(o, "\n")
		case *sstr:
			if o.lazy != nil && o.b == nil {
				n += o.lazy.newlines(in)
				continue
			}
			for _, b := range o.b {
				if b.t != nil {
					if in.p.decide(in.p.C.Eq(b.t, in.p.C.BVConst('\n', 8))) {
						n++
					}
				} else if b.c == '\n' {
					n++
				}
			}
		}
	}
	return n
}

var _ = sort.Strings
var _ ssa.Value
