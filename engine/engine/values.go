// Package engine is gosym: a symbolic executor for Go programs in go/ssa
// form.  Its structure (frames, boxed values, instruction dispatch) follows
// golang.org/x/tools/go/ssa/interp (BSD licence); the value model is rewritten
// so that integers, booleans and string bytes may be SMT terms.
package engine

import (
	"fmt"
	"go/types"
	"math/big"
	"strings"

	"gosym/smt"

	"golang.org/x/tools/go/ssa"
)

// value is a boxed interpreter value. Dynamic types:
//
//	bool | sbool                 booleans (concrete | symbolic)
//	ival                         all integer types (concrete or symbolic)
//	float32 | float64            floats (always concrete)
//	string | *sstr               strings (concrete | bytes partly symbolic / lazy)
//	*value                       pointers
//	[]value                      slices
//	array, structure, tuple      aggregates
//	iface                        interfaces
//	*gomap                       maps
//	*ssa.Function, *ssa.Builtin, *closure   functions
//	iter                         range iterators
//	bvval, arrval                reference-model bit-vectors / SMT arrays (sym.BV, sym.Arr)
//	*bigval                      math/big.Int model
type value interface{}

type tuple []value
type array []value
type structure []value

type iface struct {
	t types.Type
	v value
}

type closure struct {
	Fn  *ssa.Function
	Env []value
}

type bad struct{}

// ival is an integer of a Go integer type.
type ival struct {
	bits   uint8
	signed bool
	c      uint64    // concrete value, zero-extended to 64 bits, valid when t == nil
	t      *smt.Term // symbolic value of sort BV(bits), or nil
}

type sbool struct{ t *smt.Term }

// bvval is a value of the harness type sym.BV.
type bvval struct{ t *smt.Term }

// arrval is a value of the harness type sym.Arr.
type arrval struct{ t *smt.Term }

func (v ival) isSym() bool { return v.t != nil }

func maskBits(bits uint8) uint64 {
	if bits >= 64 {
		return ^uint64(0)
	}
	return (uint64(1) << bits) - 1
}

func (v ival) sext() int64 {
	sh := 64 - uint(v.bits)
	return int64(v.c<<sh) >> sh
}

func mkInt(bits uint8, signed bool, c uint64) ival {
	return ival{bits: bits, signed: signed, c: c & maskBits(bits)}
}

func intKind(t types.Type) (bits uint8, signed bool, ok bool) {
	b, isb := t.Underlying().(*types.Basic)
	if !isb {
		return 0, false, false
	}
	switch b.Kind() {
	case types.Int, types.Int64, types.UntypedInt:
		return 64, true, true
	case types.Int8:
		return 8, true, true
	case types.Int16:
		return 16, true, true
	case types.Int32, types.UntypedRune:
		return 32, true, true
	case types.Uint, types.Uint64, types.Uintptr:
		return 64, false, true
	case types.Uint8:
		return 8, false, true
	case types.Uint16:
		return 16, false, true
	case types.Uint32:
		return 32, false, true
	}
	return 0, false, false
}

func intOf(t types.Type, c uint64) ival {
	bits, signed, ok := intKind(t)
	if !ok {
		panic(fmt.Sprintf("intOf: not an integer type: %s", t))
	}
	return mkInt(bits, signed, c)
}

func goInt(c int) ival { return mkInt(64, true, uint64(c)) }

// term returns v as an SMT term.
func (in *Interp) iterm(v ival) *smt.Term {
	if v.t != nil {
		return v.t
	}
	return in.p.C.BVConst(v.c, int(v.bits))
}

func (in *Interp) bterm(v value) *smt.Term {
	switch v := v.(type) {
	case bool:
		return in.p.C.Bool(v)
	case sbool:
		return v.t
	}
	panic(fmt.Sprintf("bterm: %T", v))
}

// mkBool boxes a boolean term.
func mkBool(t *smt.Term) value {
	if t.IsConst() {
		return t.IsTrue()
	}
	return sbool{t}
}

// mkIntTerm boxes an integer term, concretising constants.
func mkIntTerm(bits uint8, signed bool, t *smt.Term) ival {
	if t.IsConst() {
		return mkInt(bits, signed, t.Uint64())
	}
	if t.S.W != int(bits) {
		panic(fmt.Sprintf("mkIntTerm: width %d for %d-bit int", t.S.W, bits))
	}
	return ival{bits: bits, signed: signed, t: t}
}

// ---- strings with symbolic content

// sstr is a string whose bytes are ivals (8-bit), possibly symbolic.
type sstr struct {
	b    []ival
	lazy *lazyFmt // when b == nil: formatted on demand
}

// ---- maps (insertion ordered, deterministic iteration)

type gomap struct {
	keys []value
	vals []value
	live []bool
	idx  map[string]int
	n    int
}

func newMap() *gomap { return &gomap{idx: map[string]int{}} }

func (m *gomap) length() int {
	if m == nil {
		return 0
	}
	return m.n
}

// keyString canonicalises a concrete key. ok=false if the key has symbolic parts.
func keyString(v value) (string, bool) {
	switch v := v.(type) {
	case bool:
		if v {
			return "T", true
		}
		return "F", true
	case ival:
		if v.t != nil {
			return "", false
		}
		return fmt.Sprintf("i%d", v.c), true
	case string:
		return "s" + v, true
	case float64:
		return fmt.Sprintf("f%v", v), true
	case float32:
		return fmt.Sprintf("f%v", v), true
	case *value:
		return fmt.Sprintf("p%p", v), true
	case structure:
		var sb strings.Builder
		sb.WriteString("{")
		for _, f := range v {
			s, ok := keyString(f)
			if !ok {
				return "", false
			}
			fmt.Fprintf(&sb, "%d:%s,", len(s), s)
		}
		return sb.String(), true
	case array:
		var sb strings.Builder
		sb.WriteString("[")
		for _, f := range v {
			s, ok := keyString(f)
			if !ok {
				return "", false
			}
			fmt.Fprintf(&sb, "%d:%s,", len(s), s)
		}
		return sb.String(), true
	case iface:
		if v.t == nil {
			return "nil", true
		}
		s, ok := keyString(v.v)
		return "I" + v.t.String() + "|" + s, ok
	case *sstr:
		return "", false
	case sbool:
		return "", false
	}
	panic(fmt.Sprintf("keyString: unhashable %T", v))
}

// ---- misc

type iter interface {
	next(in *Interp) tuple
}

// bigval models *math/big.Int: a non-negative magnitude bit-vector with sign.
type bigval struct {
	neg *smt.Term // Bool
	mag *smt.Term // BV(w)
}

func (in *Interp) zero(t types.Type) value {
	switch t := t.(type) {
	case *types.Basic:
		if t.Info()&types.IsUntyped != 0 {
			if t.Kind() == types.UntypedNil {
				panic("untyped nil has no zero value")
			}
			t = types.Default(t).(*types.Basic)
		}
		if bits, signed, ok := intKind(t); ok {
			return mkInt(bits, signed, 0)
		}
		switch t.Kind() {
		case types.Bool:
			return false
		case types.Float32:
			return float32(0)
		case types.Float64:
			return float64(0)
		case types.String:
			return ""
		case types.UnsafePointer:
			return (*value)(nil)
		}
		panic(fmt.Sprint("zero for unexpected type: ", t))
	case *types.Pointer:
		return (*value)(nil)
	case *types.Array:
		a := make(array, t.Len())
		for i := range a {
			a[i] = in.zero(t.Elem())
		}
		return a
	case *types.Named:
		if z, ok := in.specialZero(t); ok {
			return z
		}
		return in.zero(t.Underlying())
	case *types.Alias:
		return in.zero(types.Unalias(t))
	case *types.Interface:
		return iface{}
	case *types.Slice:
		return []value(nil)
	case *types.Struct:
		s := make(structure, t.NumFields())
		for i := range s {
			s[i] = in.zero(t.Field(i).Type())
		}
		return s
	case *types.Tuple:
		if t.Len() == 1 {
			return in.zero(t.At(0).Type())
		}
		s := make(tuple, t.Len())
		for i := range s {
			s[i] = in.zero(t.At(i).Type())
		}
		return s
	case *types.Chan:
		return (chan value)(nil)
	case *types.Map:
		return (*gomap)(nil)
	case *types.Signature:
		return (*ssa.Function)(nil)
	case *types.TypeParam:
		panic("zero of type parameter (generic body executed?)")
	}
	panic(fmt.Sprint("zero: unexpected ", t))
}

// load returns a copy of the value of type T in *addr.
func load(T types.Type, addr *value) value {
	return copyVal(*addr)
}

// copyVal copies aggregates (arrays and structs have value semantics).
func copyVal(v value) value {
	switch v := v.(type) {
	case structure:
		a := make(structure, len(v))
		for i := range a {
			a[i] = copyVal(v[i])
		}
		return a
	case array:
		a := make(array, len(v))
		for i := range a {
			a[i] = copyVal(v[i])
		}
		return a
	}
	return v
}

// store stores v into *addr, element-wise for aggregates so that interior
// pointers (&s.f) stay valid.
func store(addr *value, v value) {
	switch rhs := v.(type) {
	case structure:
		if lhs, ok := (*addr).(structure); ok && len(lhs) == len(rhs) {
			for i := range lhs {
				store(&lhs[i], rhs[i])
			}
			return
		}
		*addr = copyVal(rhs)
	case array:
		if lhs, ok := (*addr).(array); ok && len(lhs) == len(rhs) {
			for i := range lhs {
				store(&lhs[i], rhs[i])
			}
			return
		}
		*addr = copyVal(rhs)
	default:
		*addr = v
	}
}

func bigFromHex(h string) *big.Int {
	b, ok := new(big.Int).SetString(h, 16)
	if !ok {
		return new(big.Int)
	}
	return b
}

// specialZero gives zero values for harness model types.
func (in *Interp) specialZero(t *types.Named) (value, bool) {
	if t.Obj().Pkg() != nil && t.Obj().Pkg().Path() == symPkg {
		switch t.Obj().Name() {
		case "BV":
			return bvval{in.p.C.BVConst(0, 1)}, true
		}
	}
	return nil, false
}

// stringerMethod returns the Error or String method of the dynamic type.
func (in *Interp) stringerMethod(v iface) *ssa.Function {
	for _, name := range []string{"Error", "String"} {
		sel := in.prog.MethodSets.MethodSet(v.t).Lookup(nil, name)
		if sel == nil {
			continue
		}
		sig := sel.Type().(*types.Signature)
		if sig.Params().Len() != 0 || sig.Results().Len() != 1 {
			continue
		}
		if fn := in.prog.MethodValue(sel); fn != nil {
			return fn
		}
	}
	return nil
}
