package engine

// scanOps abstracts the byte tests and the accumulation so that the same
// control structure runs over symbolic bytes (big.go) and over concrete
// strings (bigscan_test.go, against the real math/big).
type scanOps interface {
	n() int
	is(i int, c byte) bool
	between(i int, lo, hi byte) bool
	digitBelow(i int, off byte, base int) bool // bs[i]-off < base
	push(i int, off byte, base int)            // acc = acc*base + (bs[i]-off)
}

// scanBigModel follows math/big's Int.SetString: scanSign, nat.scan with
// fracOk=false, then "entire content must have been consumed".
// It returns whether the string is accepted and whether a minus sign was read.
func scanBigModel(o scanOps, base int) (ok bool, neg bool) {
	n := o.n()
	pos := 0
	// scanSign
	if n == 0 {
		return false, false
	}
	if o.is(0, '-') {
		neg = true
		pos = 1
	} else if o.is(0, '+') {
		pos = 1
	}
	// nat.scan: one char look-ahead; eof == "err != nil"
	eof := pos >= n
	b, prefix := base, byte(0)
	prev := byte('.')
	invalSep := false
	count := 0
	if base == 0 {
		b = 10
		if !eof && o.is(pos, '0') {
			prev = '0'
			count = 1
			pos++
			eof = pos >= n
			if !eof {
				switch {
				case o.is(pos, 'b') || o.is(pos, 'B'):
					b, prefix = 2, 'b'
				case o.is(pos, 'o') || o.is(pos, 'O'):
					b, prefix = 8, 'o'
				case o.is(pos, 'x') || o.is(pos, 'X'):
					b, prefix = 16, 'x'
				default:
					b, prefix = 8, '0'
				}
				count = 0
				if prefix != '0' {
					pos++
					eof = pos >= n
				}
			}
		}
	}
	for !eof {
		if base == 0 && o.is(pos, '_') {
			if prev != '0' {
				invalSep = true
			}
			prev = '_'
		} else {
			var off byte
			switch {
			case o.between(pos, '0', '9'):
				off = '0'
			case o.between(pos, 'a', 'z'):
				off = 'a' - 10
			case o.between(pos, 'A', 'Z'):
				off = 'A' - 10 // b <= 36 always here
			default:
				goto done // d1 = MaxBase+1 >= b1: unread, break
			}
			if !o.digitBelow(pos, off, b) {
				goto done
			}
			prev = '0'
			count++
			o.push(pos, off, b)
		}
		pos++
		eof = pos >= n
	}
done:
	// here: eof <=> the scanner stopped with io.EOF (err becomes nil either way)
	if invalSep || prev == '_' {
		return false, neg
	}
	if count == 0 {
		if prefix == '0' {
			// only the octal prefix 0: decimal 0, no error
		} else {
			return false, neg // errNoDigits
		}
	}
	// entire content must have been consumed
	if pos < n {
		return false, neg
	}
	return true, neg
}
