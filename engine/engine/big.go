package engine

import (
	"fmt"

	"gosym/smt"
)

// Model of *math/big.Int: sign + magnitude bit-vector whose width is fixed by
// how the number was produced (operand byte length, product width, ...).
// The trusted part is that this model agrees with math/big on the operations
// below; the byte-order and width logic around it is the code under test.

func (in *Interp) bigOf(p value) *bigval {
	ptr := p.(*value)
	if ptr == nil {
		in.rtPanic("nil *big.Int")
	}
	if b, ok := in.bigs[ptr]; ok {
		return b
	}
	return &bigval{neg: in.p.C.False(), mag: in.p.C.BVConst(0, 8)}
}

func (in *Interp) bigSet(p value, b *bigval) value {
	in.bigs[p.(*value)] = b
	return p
}

func (in *Interp) bigWiden(a, b *smt.Term) (*smt.Term, *smt.Term) {
	w := a.S.W
	if b.S.W > w {
		w = b.S.W
	}
	return in.p.C.Resize(a, w, false), in.p.C.Resize(b, w, false)
}

func registerBig(reg func(string, externalFn)) {
	m := func(n string) string { return "(*math/big.Int)." + n }
	reg(m("SetBytes"), func(in *Interp, fr *frame, args []value) value {
		bs := args[1].([]value)
		C := in.p.C
		var t *smt.Term
		for _, b := range bs { // big-endian
			bt := in.iterm(b.(ival))
			if t == nil {
				t = bt
			} else {
				t = C.Concat(t, bt)
			}
		}
		if t == nil {
			t = C.BVConst(0, 8)
		}
		return in.bigSet(args[0], &bigval{neg: C.False(), mag: t})
	})
	reg(m("SetUint64"), func(in *Interp, fr *frame, args []value) value {
		return in.bigSet(args[0], &bigval{neg: in.p.C.False(), mag: in.iterm(args[1].(ival))})
	})
	reg(m("SetInt64"), func(in *Interp, fr *frame, args []value) value {
		C := in.p.C
		x := in.iterm(args[1].(ival))
		neg := C.Cmp(smt.OpBvSlt, x, C.BVConst(0, 64))
		return in.bigSet(args[0], &bigval{neg: neg, mag: C.Ite(neg, C.BvNeg(x), x)})
	})
	reg(m("Set"), func(in *Interp, fr *frame, args []value) value {
		b := in.bigOf(args[1])
		return in.bigSet(args[0], &bigval{neg: b.neg, mag: b.mag})
	})
	reg(m("Mul"), func(in *Interp, fr *frame, args []value) value {
		C := in.p.C
		x, y := in.bigOf(args[1]), in.bigOf(args[2])
		w := x.mag.S.W + y.mag.S.W
		p := C.Bin(smt.OpBvMul, C.Resize(x.mag, w, false), C.Resize(y.mag, w, false))
		neg := C.And(C.XorB(x.neg, y.neg), C.Not(C.Eq(p, C.BVConst(0, w))))
		return in.bigSet(args[0], &bigval{neg: neg, mag: p})
	})
	// signed addition / subtraction in two's complement of a width that cannot overflow
	addSub := func(sub bool) externalFn {
		return func(in *Interp, fr *frame, args []value) value {
			C := in.p.C
			x, y := in.bigOf(args[1]), in.bigOf(args[2])
			a, b := in.bigWiden(x.mag, y.mag)
			w := a.S.W + 2
			sx, sy := C.Resize(a, w, false), C.Resize(b, w, false)
			sx = C.Ite(x.neg, C.BvNeg(sx), sx)
			yneg := y.neg
			if sub {
				yneg = C.Not(yneg)
			}
			sy = C.Ite(yneg, C.BvNeg(sy), sy)
			sum := C.Bin(smt.OpBvAdd, sx, sy)
			neg := C.Cmp(smt.OpBvSlt, sum, C.BVConst(0, w))
			return in.bigSet(args[0], &bigval{neg: neg, mag: C.Ite(neg, C.BvNeg(sum), sum)})
		}
	}
	reg(m("Add"), addSub(false))
	reg(m("Sub"), addSub(true))
	reg(m("Neg"), func(in *Interp, fr *frame, args []value) value {
		C := in.p.C
		x := in.bigOf(args[1])
		isZero := C.Eq(x.mag, C.BVConst(0, x.mag.S.W))
		return in.bigSet(args[0], &bigval{neg: C.And(C.Not(x.neg), C.Not(isZero)), mag: x.mag})
	})
	reg(m("Abs"), func(in *Interp, fr *frame, args []value) value {
		x := in.bigOf(args[1])
		return in.bigSet(args[0], &bigval{neg: in.p.C.False(), mag: x.mag})
	})
	reg(m("Lsh"), func(in *Interp, fr *frame, args []value) value {
		C := in.p.C
		x := in.bigOf(args[1])
		n := int(in.concInt(args[2], "big.Int.Lsh shift", 1))
		if n < 0 || n > 4096 {
			panic(abortPath{"unsupported", "big.Int.Lsh by a huge amount"})
		}
		w := x.mag.S.W + n
		mag := C.Bin(smt.OpBvShl, C.Resize(x.mag, w, false), C.BVConst(uint64(n), w))
		return in.bigSet(args[0], &bigval{neg: x.neg, mag: mag})
	})
	reg("math/big.NewInt", func(in *Interp, fr *frame, args []value) value {
		C := in.p.C
		cell := new(value)
		x := in.iterm(args[0].(ival))
		neg := C.Cmp(smt.OpBvSlt, x, C.BVConst(0, 64))
		in.bigs[cell] = &bigval{neg: neg, mag: C.Ite(neg, C.BvNeg(x), x)}
		return cell
	})
	divmod := func(op smt.Op) externalFn {
		return func(in *Interp, fr *frame, args []value) value {
			C := in.p.C
			x, y := in.bigOf(args[1]), in.bigOf(args[2])
			if !x.neg.IsFalse() || !y.neg.IsFalse() {
				panic(abortPath{"unsupported", "big.Int.Div/Mod with possibly negative operands"})
			}
			a, b := in.bigWiden(x.mag, y.mag)
			in.panicIf(C.Eq(b, C.BVConst(0, b.S.W)), "division by zero")
			return in.bigSet(args[0], &bigval{neg: C.False(), mag: C.Bin(op, a, b)})
		}
	}
	reg(m("Div"), divmod(smt.OpBvUDiv))
	reg(m("Quo"), divmod(smt.OpBvUDiv))
	reg(m("Mod"), divmod(smt.OpBvURem))
	reg(m("Rem"), divmod(smt.OpBvURem))
	reg(m("Cmp"), func(in *Interp, fr *frame, args []value) value {
		C := in.p.C
		x, y := in.bigOf(args[0]), in.bigOf(args[1])
		a, b := in.bigWiden(x.mag, y.mag)
		lt := C.Cmp(smt.OpBvUlt, a, b)
		eq := C.Eq(a, b)
		one, zero, mone := C.BVConst(1, 64), C.BVConst(0, 64), C.BVConst(^uint64(0), 64)
		magCmp := C.Ite(eq, zero, C.Ite(lt, mone, one))
		res := C.Ite(C.And(x.neg, C.Not(y.neg)), mone,
			C.Ite(C.And(C.Not(x.neg), y.neg), one,
				C.Ite(x.neg, C.BvNeg(magCmp), magCmp)))
		return mkIntTerm(64, true, res)
	})
	reg(m("Sign"), func(in *Interp, fr *frame, args []value) value {
		C := in.p.C
		x := in.bigOf(args[0])
		isZero := C.Eq(x.mag, C.BVConst(0, x.mag.S.W))
		res := C.Ite(isZero, C.BVConst(0, 64), C.Ite(x.neg, C.BVConst(^uint64(0), 64), C.BVConst(1, 64)))
		return mkIntTerm(64, true, res)
	})
	reg(m("IsUint64"), func(in *Interp, fr *frame, args []value) value {
		C := in.p.C
		x := in.bigOf(args[0])
		fits := C.True()
		if x.mag.S.W > 64 {
			fits = C.Eq(C.Extract(x.mag, x.mag.S.W-1, 64), C.BVConst(0, x.mag.S.W-64))
		}
		return mkBool(C.And(C.Not(x.neg), fits))
	})
	reg(m("Int64"), func(in *Interp, fr *frame, args []value) value {
		C := in.p.C
		x := in.bigOf(args[0])
		lo := C.Resize(x.mag, 64, false)
		return mkIntTerm(64, true, C.Ite(x.neg, C.BvNeg(lo), lo))
	})
	reg(m("IsInt64"), func(in *Interp, fr *frame, args []value) value {
		C := in.p.C
		x := in.bigOf(args[0])
		w := x.mag.S.W
		if w < 65 {
			w = 65
		}
		mg := C.Resize(x.mag, w, false)
		pos := C.Cmp(smt.OpBvUlt, mg, C.BVConst(1<<63, w))
		negOK := C.Cmp(smt.OpBvUle, mg, C.BVConst(1<<63, w))
		return mkBool(C.Ite(x.neg, negOK, pos))
	})
	reg(m("Uint64"), func(in *Interp, fr *frame, args []value) value {
		x := in.bigOf(args[0])
		return mkIntTerm(64, false, in.p.C.Resize(x.mag, 64, false))
	})
	reg(m("Bytes"), func(in *Interp, fr *frame, args []value) value {
		x := in.bigOf(args[0])
		return in.bigBytes(x)
	})
	reg(m("FillBytes"), func(in *Interp, fr *frame, args []value) value {
		C := in.p.C
		x := in.bigOf(args[0])
		buf := args[1].([]value)
		n := len(buf)
		w := x.mag.S.W
		if 8*n < w {
			var over *smt.Term
			if n == 0 {
				over = C.Not(C.Eq(x.mag, C.BVConst(0, w)))
			} else {
				over = C.Not(C.Eq(C.Extract(x.mag, w-1, 8*n), C.BVConst(0, w-8*n)))
			}
			if in.p.decide(over) {
				panic(targetPanic{v: "math/big: buffer too small to fit value", stack: in.stackString()})
			}
		}
		for i := 0; i < n; i++ { // buf[n-1-i] = byte i (little end)
			var b *smt.Term
			if 8*i+7 < w {
				b = C.Extract(x.mag, 8*i+7, 8*i)
			} else if 8*i < w {
				b = C.Resize(C.Extract(x.mag, w-1, 8*i), 8, false)
			} else {
				b = C.BVConst(0, 8)
			}
			buf[n-1-i] = mkIntTerm(8, false, b)
		}
		return buf
	})
	reg(m("SetString"), func(in *Interp, fr *frame, args []value) value {
		return in.bigSetString(args[0], args[1], args[2])
	})
	reg(m("String"), func(in *Interp, fr *frame, args []value) value {
		x := in.bigOf(args[0])
		if x.mag.IsConst() && x.neg.IsConst() {
			s := x.mag.Val.String()
			if x.neg.IsTrue() {
				s = "-" + s
			}
			return s
		}
		return "<big>"
	})
}

// bigBytes models (*big.Int).Bytes: big-endian magnitude without leading
// zero bytes; the length depends on the value, so the path forks on it.
func (in *Interp) bigBytes(x *bigval) value {
	C := in.p.C
	w := x.mag.S.W
	nb := (w + 7) / 8
	mag := C.Resize(x.mag, 8*nb, false)
	// significant byte count
	n := 0
	for k := nb; k >= 1; k-- {
		top := C.Extract(mag, 8*k-1, 8*(k-1))
		if in.p.decide(C.Not(C.Eq(top, C.BVConst(0, 8)))) {
			n = k
			break
		}
	}
	res := make([]value, n)
	for i := 0; i < n; i++ {
		res[n-1-i] = mkIntTerm(8, false, C.Extract(mag, 8*i+7, 8*i))
	}
	if n == 0 {
		return []value{}
	}
	return res
}

// bigSetString models (*big.Int).SetString(s, base): the control structure is
// the transliteration of math/big (scanSign, nat.scan, setFromScanner) in
// bigscan.go, which engine/bigscan_test.go compares with the real math/big on
// every string over a 20-letter alphabet up to length 4; here the byte tests
// become solver decisions and the accumulation a bit-vector term.
func (in *Interp) bigSetString(z, sv, basev value) value {
	C := in.p.C
	base := int(in.concInt(basev, "SetString base", 1))
	bs := in.sbytes(sv)
	if base != 0 && base != 10 && base != 16 && base != 2 && base != 8 {
		panic(abortPath{"unsupported", fmt.Sprintf("SetString base %d", base)})
	}
	w := 8*len(bs) + 8
	o := &symScan{in: in, bs: bs, w: w, acc: C.BVConst(0, w)}
	ok, neg := scanBigModel(o, base)
	if !ok {
		return tuple{(*value)(nil), false}
	}
	isZero := C.Eq(o.acc, C.BVConst(0, w))
	in.bigSet(z, &bigval{neg: C.And(C.Bool(neg), C.Not(isZero)), mag: o.acc})
	return tuple{z, true}
}

type symScan struct {
	in  *Interp
	bs  []ival
	w   int
	acc *smt.Term
}

func (o *symScan) n() int { return len(o.bs) }
func (o *symScan) is(i int, c byte) bool {
	C := o.in.p.C
	return o.in.p.decide(C.Eq(o.in.iterm(o.bs[i]), C.BVConst(uint64(c), 8)))
}
func (o *symScan) between(i int, lo, hi byte) bool {
	C := o.in.p.C
	c := o.in.iterm(o.bs[i])
	return o.in.p.decide(C.And(C.Cmp(smt.OpBvUle, C.BVConst(uint64(lo), 8), c), C.Cmp(smt.OpBvUle, c, C.BVConst(uint64(hi), 8))))
}
func (o *symScan) digitBelow(i int, off byte, base int) bool {
	C := o.in.p.C
	d := C.Bin(smt.OpBvSub, o.in.iterm(o.bs[i]), C.BVConst(uint64(off), 8))
	return o.in.p.decide(C.Cmp(smt.OpBvUlt, d, C.BVConst(uint64(base), 8)))
}
func (o *symScan) push(i int, off byte, base int) {
	C := o.in.p.C
	d := C.Bin(smt.OpBvSub, o.in.iterm(o.bs[i]), C.BVConst(uint64(off), 8))
	o.acc = C.Bin(smt.OpBvAdd, C.Bin(smt.OpBvMul, o.acc, C.BVConst(uint64(base), o.w)), C.Resize(d, o.w, false))
}
