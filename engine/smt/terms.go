// Package smt is a small hash-consed term DAG for quantifier-free
// bit-vector / array / boolean formulas, printed as SMT-LIB2.
//
// A Ctx is single-threaded: one Ctx per explored path.
package smt

import (
	"fmt"
	"math/big"
	"strings"
)

type Kind uint8

const (
	KBool Kind = iota
	KBV
	KArr // array (BitVec Idx) -> (BitVec Elem)
)

type Sort struct {
	K    Kind
	W    int // KBV: width; KArr: index width
	Elem int // KArr: element width
}

func (s Sort) String() string {
	switch s.K {
	case KBool:
		return "Bool"
	case KBV:
		return fmt.Sprintf("(_ BitVec %d)", s.W)
	default:
		return fmt.Sprintf("(Array (_ BitVec %d) (_ BitVec %d))", s.W, s.Elem)
	}
}

var BoolSort = Sort{K: KBool}

func BV(w int) Sort { return Sort{K: KBV, W: w} }

type Op uint8

const (
	OpConst Op = iota // bool or bv constant
	OpVar
	OpNot
	OpAnd
	OpOr
	OpXorB
	OpIte
	OpEq
	OpBvNot
	OpBvNeg
	OpBvAnd
	OpBvOr
	OpBvXor
	OpBvAdd
	OpBvSub
	OpBvMul
	OpBvUDiv
	OpBvURem
	OpBvSDiv
	OpBvSRem
	OpBvShl
	OpBvLshr
	OpBvAshr
	OpBvUlt
	OpBvUle
	OpBvSlt
	OpBvSle
	OpConcat
	OpExtract // P0=hi, P1=lo
	OpZext    // P0 = extra bits
	OpSext    // P0 = extra bits
	OpSelect
	OpStore
	OpUF // Name = function name
)

var opNames = map[Op]string{
	OpNot: "not", OpAnd: "and", OpOr: "or", OpXorB: "xor", OpIte: "ite", OpEq: "=",
	OpBvNot: "bvnot", OpBvNeg: "bvneg", OpBvAnd: "bvand", OpBvOr: "bvor", OpBvXor: "bvxor",
	OpBvAdd: "bvadd", OpBvSub: "bvsub", OpBvMul: "bvmul", OpBvUDiv: "bvudiv", OpBvURem: "bvurem",
	OpBvSDiv: "bvsdiv", OpBvSRem: "bvsrem", OpBvShl: "bvshl", OpBvLshr: "bvlshr", OpBvAshr: "bvashr",
	OpBvUlt: "bvult", OpBvUle: "bvule", OpBvSlt: "bvslt", OpBvSle: "bvsle", OpConcat: "concat",
	OpSelect: "select", OpStore: "store",
}

type Term struct {
	Op   Op
	S    Sort
	Args []*Term
	Val  *big.Int // OpConst (bool: 0/1)
	Name string   // OpVar, OpUF
	P0   int
	P1   int
	ID   int
}

func (t *Term) IsConst() bool { return t.Op == OpConst }

// Uint64 returns the constant value (low 64 bits).
func (t *Term) Uint64() uint64 {
	if t.Val.IsUint64() {
		return t.Val.Uint64()
	}
	return new(big.Int).And(t.Val, mask(64)).Uint64()
}

func (t *Term) IsTrue() bool  { return t.Op == OpConst && t.S.K == KBool && t.Val.Sign() != 0 }
func (t *Term) IsFalse() bool { return t.Op == OpConst && t.S.K == KBool && t.Val.Sign() == 0 }

type UFDecl struct {
	Name string
	Args []Sort
	Ret  Sort
}

type Ctx struct {
	table map[string]*Term
	next  int
	Vars  []*Term // in declaration order
	vars  map[string]*Term
	UFs   []UFDecl
	ufs   map[string]bool
	tt    *Term
	ff    *Term
	// AbstractMulDiv replaces bvmul/bvudiv/bvurem on widths >= AbstractMinW by
	// uninterpreted functions (shared by implementation and reference terms).
	// SmallBases marks variables known to be <= 2^62: base + small constant never wraps.
	SmallBases     map[int]bool
	AbstractMulDiv bool
	AbstractGuards bool // add the zero/one facts of the real operations to the UFs
	AbstractMinW   int
}

func NewCtx() *Ctx {
	c := &Ctx{table: map[string]*Term{}, vars: map[string]*Term{}, ufs: map[string]bool{}}
	c.tt = c.mk(&Term{Op: OpConst, S: BoolSort, Val: big.NewInt(1)})
	c.ff = c.mk(&Term{Op: OpConst, S: BoolSort, Val: big.NewInt(0)})
	return c
}

var masks = map[int]*big.Int{}

func mask(w int) *big.Int {
	if m, ok := masks[w]; ok {
		return m
	}
	m := new(big.Int).Lsh(big.NewInt(1), uint(w))
	m.Sub(m, big.NewInt(1))
	return m
}

func init() {
	for w := 1; w <= 2048; w++ {
		masks[w] = mask(w)
	}
}

func (c *Ctx) key(t *Term) string {
	var sb strings.Builder
	fmt.Fprintf(&sb, "%d|%d.%d.%d|%d.%d|%s|", t.Op, t.S.K, t.S.W, t.S.Elem, t.P0, t.P1, t.Name)
	if t.Val != nil {
		sb.WriteString(t.Val.Text(16))
	}
	for _, a := range t.Args {
		fmt.Fprintf(&sb, ",%d", a.ID)
	}
	return sb.String()
}

func (c *Ctx) mk(t *Term) *Term {
	k := c.key(t)
	if e, ok := c.table[k]; ok {
		return e
	}
	c.next++
	t.ID = c.next
	c.table[k] = t
	return t
}

func (c *Ctx) True() *Term  { return c.tt }
func (c *Ctx) False() *Term { return c.ff }
func (c *Ctx) Bool(b bool) *Term {
	if b {
		return c.tt
	}
	return c.ff
}

func (c *Ctx) BVConst(v uint64, w int) *Term {
	b := new(big.Int).SetUint64(v)
	if w < 64 {
		b.And(b, mask(w))
	}
	return c.mk(&Term{Op: OpConst, S: BV(w), Val: b})
}

func (c *Ctx) BVBig(v *big.Int, w int) *Term {
	b := new(big.Int).And(v, mask(w)) // big.Int And on negative uses two's complement semantics
	if b.Sign() < 0 {
		b.Add(b, new(big.Int).Lsh(big.NewInt(1), uint(w)))
	}
	return c.mk(&Term{Op: OpConst, S: BV(w), Val: b})
}

func (c *Ctx) Var(name string, s Sort) *Term {
	if v, ok := c.vars[name]; ok {
		if v.S != s {
			panic("smt: variable redeclared with other sort: " + name)
		}
		return v
	}
	v := c.mk(&Term{Op: OpVar, S: s, Name: name})
	c.vars[name] = v
	c.Vars = append(c.Vars, v)
	return v
}

func (c *Ctx) HasVar(name string) bool { _, ok := c.vars[name]; return ok }

// ---- booleans

func (c *Ctx) Not(a *Term) *Term {
	if a.IsConst() {
		return c.Bool(a.Val.Sign() == 0)
	}
	if a.Op == OpNot {
		return a.Args[0]
	}
	return c.mk(&Term{Op: OpNot, S: BoolSort, Args: []*Term{a}})
}

func (c *Ctx) And(as ...*Term) *Term {
	var out []*Term
	seen := map[int]bool{}
	for _, a := range as {
		if a.IsFalse() {
			return c.ff
		}
		if a.IsTrue() || seen[a.ID] {
			continue
		}
		if a.Op == OpAnd {
			for _, b := range a.Args {
				if !seen[b.ID] {
					seen[b.ID] = true
					out = append(out, b)
				}
			}
			continue
		}
		seen[a.ID] = true
		out = append(out, a)
	}
	for _, a := range out {
		if a.Op == OpNot && seen[a.Args[0].ID] {
			return c.ff
		}
	}
	switch len(out) {
	case 0:
		return c.tt
	case 1:
		return out[0]
	}
	return c.mk(&Term{Op: OpAnd, S: BoolSort, Args: out})
}

func (c *Ctx) Or(as ...*Term) *Term {
	var out []*Term
	seen := map[int]bool{}
	for _, a := range as {
		if a.IsTrue() {
			return c.tt
		}
		if a.IsFalse() || seen[a.ID] {
			continue
		}
		if a.Op == OpOr {
			for _, b := range a.Args {
				if !seen[b.ID] {
					seen[b.ID] = true
					out = append(out, b)
				}
			}
			continue
		}
		seen[a.ID] = true
		out = append(out, a)
	}
	for _, a := range out {
		if a.Op == OpNot && seen[a.Args[0].ID] {
			return c.tt
		}
	}
	switch len(out) {
	case 0:
		return c.ff
	case 1:
		return out[0]
	}
	return c.mk(&Term{Op: OpOr, S: BoolSort, Args: out})
}

func (c *Ctx) Implies(a, b *Term) *Term { return c.Or(c.Not(a), b) }

func (c *Ctx) XorB(a, b *Term) *Term {
	if a.IsConst() && b.IsConst() {
		return c.Bool(a.IsTrue() != b.IsTrue())
	}
	if a.IsConst() {
		a, b = b, a
	}
	if b.IsFalse() {
		return a
	}
	if b.IsTrue() {
		return c.Not(a)
	}
	if a == b {
		return c.ff
	}
	return c.mk(&Term{Op: OpXorB, S: BoolSort, Args: []*Term{a, b}})
}

func (c *Ctx) Ite(cond, a, b *Term) *Term {
	if a.S != b.S {
		panic(fmt.Sprintf("smt: ite sort mismatch %v %v", a.S, b.S))
	}
	if cond.IsTrue() {
		return a
	}
	if cond.IsFalse() {
		return b
	}
	if a == b {
		return a
	}
	if a.S.K == KBool {
		if a.IsTrue() && b.IsFalse() {
			return cond
		}
		if a.IsFalse() && b.IsTrue() {
			return c.Not(cond)
		}
		if a.IsTrue() {
			return c.Or(cond, b)
		}
		if a.IsFalse() {
			return c.And(c.Not(cond), b)
		}
		if b.IsTrue() {
			return c.Or(c.Not(cond), a)
		}
		if b.IsFalse() {
			return c.And(cond, a)
		}
	}
	if cond.Op == OpNot {
		return c.Ite(cond.Args[0], b, a)
	}
	return c.mk(&Term{Op: OpIte, S: a.S, Args: []*Term{cond, a, b}})
}

func (c *Ctx) Eq(a, b *Term) *Term {
	if a.S != b.S {
		panic(fmt.Sprintf("smt: eq sort mismatch %v %v", a.S, b.S))
	}
	a, b = c.pushLow(a), c.pushLow(b)
	if a == b {
		return c.tt
	}
	if a.S.K == KBV {
		if ca, cb, ok := c.sameSmallBase(a, b); ok {
			return c.Bool(ca.Cmp(cb) == 0)
		}
	}
	if a.IsConst() && b.IsConst() {
		return c.Bool(a.Val.Cmp(b.Val) == 0)
	}
	if a.S.K == KBool {
		if a.IsConst() {
			a, b = b, a
		}
		if b.IsTrue() {
			return a
		}
		if b.IsFalse() {
			return c.Not(a)
		}
	}
	if a.ID > b.ID {
		a, b = b, a
	}
	// (ite c k1 k2) == k  with constants
	if b.IsConst() && a.Op == OpIte && a.Args[1].IsConst() && a.Args[2].IsConst() {
		return c.Ite(a.Args[0], c.Eq(a.Args[1], b), c.Eq(a.Args[2], b))
	}
	if a.IsConst() && b.Op == OpIte && b.Args[1].IsConst() && b.Args[2].IsConst() {
		return c.Ite(b.Args[0], c.Eq(b.Args[1], a), c.Eq(b.Args[2], a))
	}
	return c.mk(&Term{Op: OpEq, S: BoolSort, Args: []*Term{a, b}})
}

// ---- bit-vectors

// baseOff decomposes t into base + constant offset (base may be nil for a constant).
func (c *Ctx) baseOff(t *Term) (*Term, *big.Int) {
	if t.IsConst() {
		return nil, t.Val
	}
	if t.Op == OpBvAdd {
		if t.Args[0].IsConst() {
			return t.Args[1], t.Args[0].Val
		}
		if t.Args[1].IsConst() {
			return t.Args[0], t.Args[1].Val
		}
	}
	return t, new(big.Int)
}

var small62 = new(big.Int).Lsh(big.NewInt(1), 62)

// sameSmallBase reports whether a and b are base+c1, base+c2 over one
// variable known to be small, with small non-negative offsets.
func (c *Ctx) sameSmallBase(a, b *Term) (*big.Int, *big.Int, bool) {
	if c.SmallBases == nil {
		return nil, nil, false
	}
	ba, ca := c.baseOff(a)
	bb, cb := c.baseOff(b)
	if ba == nil || ba != bb || !c.SmallBases[ba.ID] {
		return nil, nil, false
	}
	if ca.Cmp(small62) >= 0 || cb.Cmp(small62) >= 0 {
		return nil, nil, false
	}
	return ca, cb, true
}


func toSigned(v *big.Int, w int) *big.Int {
	if v.Bit(w-1) == 1 {
		return new(big.Int).Sub(v, new(big.Int).Lsh(big.NewInt(1), uint(w)))
	}
	return v
}

func (c *Ctx) checkBV2(a, b *Term, op string) {
	if a.S.K != KBV || a.S != b.S {
		panic(fmt.Sprintf("smt: %s sort mismatch %v %v", op, a.S, b.S))
	}
}

func (c *Ctx) BvNot(a *Term) *Term {
	if a.IsConst() {
		return c.BVBig(new(big.Int).Xor(a.Val, mask(a.S.W)), a.S.W)
	}
	if a.Op == OpBvNot {
		return a.Args[0]
	}
	return c.mk(&Term{Op: OpBvNot, S: a.S, Args: []*Term{a}})
}

func (c *Ctx) BvNeg(a *Term) *Term {
	if a.IsConst() {
		return c.BVBig(new(big.Int).Neg(a.Val), a.S.W)
	}
	return c.mk(&Term{Op: OpBvNeg, S: a.S, Args: []*Term{a}})
}

func (c *Ctx) isZero(a *Term) bool { return a.IsConst() && a.Val.Sign() == 0 }
func (c *Ctx) isOnes(a *Term) bool { return a.IsConst() && a.Val.Cmp(mask(a.S.W)) == 0 }

func (c *Ctx) Bin(op Op, a, b *Term) *Term {
	c.checkBV2(a, b, opNames[op])
	w := a.S.W
	if a.IsConst() && b.IsConst() {
		x, y := a.Val, b.Val
		r := new(big.Int)
		switch op {
		case OpBvAnd:
			r.And(x, y)
		case OpBvOr:
			r.Or(x, y)
		case OpBvXor:
			r.Xor(x, y)
		case OpBvAdd:
			r.Add(x, y)
		case OpBvSub:
			r.Sub(x, y)
		case OpBvMul:
			r.Mul(x, y)
		case OpBvUDiv:
			if y.Sign() == 0 {
				r.Set(mask(w))
			} else {
				r.Div(x, y)
			}
		case OpBvURem:
			if y.Sign() == 0 {
				r.Set(x)
			} else {
				r.Mod(x, y)
			}
		case OpBvSDiv:
			sx, sy := toSigned(x, w), toSigned(y, w)
			if sy.Sign() == 0 {
				if sx.Sign() < 0 {
					r.SetInt64(1)
				} else {
					r.Set(mask(w))
				}
			} else {
				r.Quo(sx, sy)
			}
		case OpBvSRem:
			sx, sy := toSigned(x, w), toSigned(y, w)
			if sy.Sign() == 0 {
				r.Set(sx)
			} else {
				r.Rem(sx, sy)
			}
		case OpBvShl:
			if y.Cmp(big.NewInt(int64(w))) >= 0 {
				r.SetInt64(0)
			} else {
				r.Lsh(x, uint(y.Uint64()))
			}
		case OpBvLshr:
			if y.Cmp(big.NewInt(int64(w))) >= 0 {
				r.SetInt64(0)
			} else {
				r.Rsh(x, uint(y.Uint64()))
			}
		case OpBvAshr:
			sx := toSigned(x, w)
			if y.Cmp(big.NewInt(int64(w))) >= 0 {
				if sx.Sign() < 0 {
					r.SetInt64(-1)
				} else {
					r.SetInt64(0)
				}
			} else {
				r.Rsh(sx, uint(y.Uint64()))
			}
		default:
			panic("smt: bad bin op")
		}
		return c.BVBig(r, w)
	}
	// offsets from a common base: (x + c1) + c2, (x + c1) - c2, (x + c1) - (x + c2)
	if op == OpBvAdd || op == OpBvSub {
		ba, ca := c.baseOff(a)
		bb, cb := c.baseOff(b)
		switch {
		case op == OpBvAdd && ba != nil && bb == nil && ba != a:
			return c.Bin(OpBvAdd, ba, c.BVBig(new(big.Int).Add(ca, cb), w))
		case op == OpBvAdd && ba == nil && bb != nil && bb != b:
			return c.Bin(OpBvAdd, bb, c.BVBig(new(big.Int).Add(ca, cb), w))
		case op == OpBvSub && bb == nil && ba != nil && (ba != a || cb.Sign() != 0):
			return c.Bin(OpBvAdd, ba, c.BVBig(new(big.Int).Sub(ca, cb), w))
		case op == OpBvSub && ba != nil && ba == bb:
			return c.BVBig(new(big.Int).Sub(ca, cb), w)
		}
	}
	// shifts by a constant are extracts / concatenations
	if (op == OpBvShl || op == OpBvLshr) && b.IsConst() && !a.IsConst() {
		if b.Val.Cmp(big.NewInt(int64(w))) >= 0 {
			return c.BVConst(0, w)
		}
		k := int(b.Val.Int64())
		if k > 0 {
			if op == OpBvLshr {
				return c.Zext(c.Extract(a, w-1, k), k)
			}
			return c.Concat(c.Extract(a, w-1-k, 0), c.BVConst(0, k))
		}
	}
	// (x : 0^k) | zext(y), y at most k bits wide  =  x : zext(y)
	if op == OpBvOr {
		for i := 0; i < 2; i++ {
			x, y := a, b
			if i == 1 {
				x, y = b, a
			}
			if x.Op == OpConcat && x.Args[1].IsConst() && x.Args[1].Val.Sign() == 0 {
				k := x.Args[1].S.W
				var low *Term
				switch {
				case y.Op == OpZext && y.Args[0].S.W <= k:
					low = c.Zext(y.Args[0], k-y.Args[0].S.W)
				case y.IsConst() && y.Val.BitLen() <= k:
					low = c.BVBig(y.Val, k)
				}
				if low != nil {
					return c.Concat(x.Args[0], low)
				}
			}
		}
	}
	// light algebraic simplification
	switch op {
	case OpBvAnd:
		if c.isZero(a) || c.isZero(b) {
			return c.BVConst(0, w)
		}
		if c.isOnes(a) {
			return b
		}
		if c.isOnes(b) {
			return a
		}
		if a == b {
			return a
		}
	case OpBvOr:
		if c.isZero(a) {
			return b
		}
		if c.isZero(b) {
			return a
		}
		if c.isOnes(a) || c.isOnes(b) {
			return c.BVBig(mask(w), w)
		}
		if a == b {
			return a
		}
	case OpBvXor:
		if c.isZero(a) {
			return b
		}
		if c.isZero(b) {
			return a
		}
		if a == b {
			return c.BVConst(0, w)
		}
	case OpBvAdd:
		if c.isZero(a) {
			return b
		}
		if c.isZero(b) {
			return a
		}
	case OpBvSub:
		if c.isZero(b) {
			return a
		}
		if a == b {
			return c.BVConst(0, w)
		}
	case OpBvShl, OpBvLshr, OpBvAshr:
		if c.isZero(b) {
			return a
		}
		if c.isZero(a) {
			return a
		}
	case OpBvMul:
		if c.isZero(a) || c.isZero(b) {
			return c.BVConst(0, w)
		}
		if a.IsConst() && a.Val.Cmp(big.NewInt(1)) == 0 {
			return b
		}
		if b.IsConst() && b.Val.Cmp(big.NewInt(1)) == 0 {
			return a
		}
	}
	if c.AbstractMulDiv && w >= c.AbstractMinW && (op == OpBvMul || op == OpBvUDiv || op == OpBvURem) {
		// operations with a constant operand stay interpreted; operand order is
		// kept (an uninterpreted function is not commutative)
		if !(a.IsConst() || b.IsConst()) {
			name := fmt.Sprintf("uf_%s_%d", opNames[op], w)
			u := c.UF(name, BV(w), a, b)
			if !c.AbstractGuards {
				return u
			}
			// Facts every model must share with the real operation (they keep
			// the abstraction an over-approximation, so unsat stays sound):
			zero, one := c.BVConst(0, w), c.BVConst(1, w)
			switch op {
			case OpBvMul:
				az, bz := c.Eq(a, zero), c.Eq(b, zero)
				return c.Ite(c.Or(az, bz), zero, c.Ite(c.Eq(a, one), b, c.Ite(c.Eq(b, one), a, u)))
			case OpBvUDiv:
				return c.Ite(c.Eq(b, zero), c.BVBig(mask(w), w), c.Ite(c.Eq(b, one), a, c.Ite(c.Eq(a, zero), zero, u)))
			default: // OpBvURem
				return c.Ite(c.Eq(b, zero), a, c.Ite(c.Eq(b, one), zero, c.Ite(c.Eq(a, zero), zero, u)))
			}
		}
	}
	switch op {
	case OpBvAnd, OpBvOr, OpBvXor, OpBvAdd, OpBvMul:
		if a.ID > b.ID {
			a, b = b, a
		}
	}
	return c.mk(&Term{Op: op, S: a.S, Args: []*Term{a, b}})
}

func (c *Ctx) UF(name string, ret Sort, args ...*Term) *Term {
	if !c.ufs[name] {
		c.ufs[name] = true
		d := UFDecl{Name: name, Ret: ret}
		for _, a := range args {
			d.Args = append(d.Args, a.S)
		}
		c.UFs = append(c.UFs, d)
	}
	return c.mk(&Term{Op: OpUF, S: ret, Name: name, Args: append([]*Term(nil), args...)})
}

func (c *Ctx) Cmp(op Op, a, b *Term) *Term {
	c.checkBV2(a, b, opNames[op])
	w := a.S.W
	if a.IsConst() && b.IsConst() {
		switch op {
		case OpBvUlt:
			return c.Bool(a.Val.Cmp(b.Val) < 0)
		case OpBvUle:
			return c.Bool(a.Val.Cmp(b.Val) <= 0)
		case OpBvSlt:
			return c.Bool(toSigned(a.Val, w).Cmp(toSigned(b.Val, w)) < 0)
		case OpBvSle:
			return c.Bool(toSigned(a.Val, w).Cmp(toSigned(b.Val, w)) <= 0)
		}
	}
	if a == b {
		return c.Bool(op == OpBvUle || op == OpBvSle)
	}
	if ca, cb, ok := c.sameSmallBase(a, b); ok {
		// no wrap-around: the order of the sums is the order of the offsets
		// (also as signed numbers: base + offset < 2^63)
		switch op {
		case OpBvUlt, OpBvSlt:
			return c.Bool(ca.Cmp(cb) < 0)
		default:
			return c.Bool(ca.Cmp(cb) <= 0)
		}
	}
	if op == OpBvUlt && c.isZero(b) {
		return c.ff
	}
	if op == OpBvUle && c.isZero(a) {
		return c.tt
	}
	return c.mk(&Term{Op: op, S: BoolSort, Args: []*Term{a, b}})
}

func (c *Ctx) Concat(hi, lo *Term) *Term {
	if hi.S.K != KBV || lo.S.K != KBV {
		panic("smt: concat of non-bv")
	}
	w := hi.S.W + lo.S.W
	if hi.IsConst() && lo.IsConst() {
		r := new(big.Int).Lsh(hi.Val, uint(lo.S.W))
		r.Or(r, lo.Val)
		return c.BVBig(r, w)
	}
	// merge adjacent extracts of one term
	if hi.Op == OpExtract && lo.Op == OpExtract && hi.Args[0] == lo.Args[0] && hi.P1 == lo.P0+1 {
		return c.Extract(hi.Args[0], hi.P0, lo.P1)
	}
	// concat(zext(x), y) = zext(concat(x, y))
	if hi.Op == OpZext {
		return c.Zext(c.Concat(hi.Args[0], lo), hi.P0)
	}
	// concat(0, x) -> zext
	if hi.IsConst() && hi.Val.Sign() == 0 {
		return c.Zext(lo, hi.S.W)
	}
	return c.mk(&Term{Op: OpConcat, S: BV(w), Args: []*Term{hi, lo}})
}

func (c *Ctx) Extract(a *Term, hi, lo int) *Term {
	if a.S.K != KBV || hi < lo || lo < 0 || hi >= a.S.W {
		panic(fmt.Sprintf("smt: bad extract [%d:%d] of %v", hi, lo, a.S))
	}
	if lo == 0 && hi == a.S.W-1 {
		return a
	}
	w := hi - lo + 1
	if a.IsConst() {
		r := new(big.Int).Rsh(a.Val, uint(lo))
		return c.BVBig(r, w)
	}
	switch a.Op {
	case OpExtract:
		return c.Extract(a.Args[0], a.P1+hi, a.P1+lo)
	case OpConcat:
		lw := a.Args[1].S.W
		if hi < lw {
			return c.Extract(a.Args[1], hi, lo)
		}
		if lo >= lw {
			return c.Extract(a.Args[0], hi-lw, lo-lw)
		}
		return c.Concat(c.Extract(a.Args[0], hi-lw, 0), c.Extract(a.Args[1], lw-1, lo))
	case OpZext:
		iw := a.Args[0].S.W
		if hi < iw {
			return c.Extract(a.Args[0], hi, lo)
		}
		if lo >= iw {
			return c.BVConst(0, w)
		}
		return c.Zext(c.Extract(a.Args[0], iw-1, lo), hi-iw+1)
	case OpSext:
		iw := a.Args[0].S.W
		if hi < iw {
			return c.Extract(a.Args[0], hi, lo)
		}
	case OpIte:
		if a.Args[1].IsConst() && a.Args[2].IsConst() {
			return c.Ite(a.Args[0], c.Extract(a.Args[1], hi, lo), c.Extract(a.Args[2], hi, lo))
		}
	case OpBvAnd, OpBvOr, OpBvXor:
		// bitwise ops commute with extraction; helps byte-wise code
		return c.Bin(a.Op, c.Extract(a.Args[0], hi, lo), c.Extract(a.Args[1], hi, lo))
	case OpBvNot:
		return c.BvNot(c.Extract(a.Args[0], hi, lo))
	}
	return c.mk(&Term{Op: OpExtract, S: BV(w), Args: []*Term{a}, P0: hi, P1: lo})
}

func (c *Ctx) Zext(a *Term, n int) *Term {
	if n == 0 {
		return a
	}
	if a.IsConst() {
		return c.BVBig(a.Val, a.S.W+n)
	}
	if a.Op == OpZext {
		return c.Zext(a.Args[0], a.P0+n)
	}
	return c.mk(&Term{Op: OpZext, S: BV(a.S.W + n), Args: []*Term{a}, P0: n})
}

func (c *Ctx) Sext(a *Term, n int) *Term {
	if n == 0 {
		return a
	}
	if a.IsConst() {
		return c.BVBig(toSigned(a.Val, a.S.W), a.S.W+n)
	}
	return c.mk(&Term{Op: OpSext, S: BV(a.S.W + n), Args: []*Term{a}, P0: n})
}

// pushLow normalises a truncation of an arithmetic term (see Low).
func (c *Ctx) pushLow(a *Term) *Term {
	if a.Op == OpExtract && a.P1 == 0 {
		switch a.Args[0].Op {
		case OpBvAdd, OpBvSub, OpBvMul, OpBvNeg:
			return c.Low(a.Args[0], a.P0+1)
		}
	}
	return a
}

// Low returns the w low bits of a. Unlike Extract it pushes the truncation
// into sums, differences and products (whose low bits depend only on the low
// bits of their operands), so that a narrow operation computed through a wide
// one normalises to the narrow operation.
func (c *Ctx) Low(a *Term, w int) *Term {
	if w == a.S.W {
		return a
	}
	switch a.Op {
	case OpBvAdd, OpBvSub, OpBvMul:
		return c.Bin(a.Op, c.Low(a.Args[0], w), c.Low(a.Args[1], w))
	case OpBvNeg:
		return c.BvNeg(c.Low(a.Args[0], w))
	case OpIte:
		return c.Ite(a.Args[0], c.Low(a.Args[1], w), c.Low(a.Args[2], w))
	}
	return c.Extract(a, w-1, 0)
}

// Resize zero- or sign-extends or truncates to w bits.
func (c *Ctx) Resize(a *Term, w int, signed bool) *Term {
	switch {
	case a.S.W == w:
		return a
	case a.S.W > w:
		return c.Low(a, w)
	case signed:
		return c.Sext(a, w-a.S.W)
	default:
		return c.Zext(a, w-a.S.W)
	}
}

// ---- arrays

func (c *Ctx) Select(arr, idx *Term) *Term {
	if arr.S.K != KArr || idx.S != BV(arr.S.W) {
		panic("smt: bad select")
	}
	// read-over-write with syntactically decidable indices
	for a := arr; a.Op == OpStore; a = a.Args[0] {
		e := c.Eq(a.Args[1], idx)
		if e.IsTrue() {
			return a.Args[2]
		}
		if !e.IsFalse() {
			break
		}
		arr = a.Args[0]
	}
	return c.mk(&Term{Op: OpSelect, S: BV(arr.S.Elem), Args: []*Term{arr, idx}})
}

func (c *Ctx) Store(arr, idx, val *Term) *Term {
	if arr.S.K != KArr || idx.S != BV(arr.S.W) || val.S != BV(arr.S.Elem) {
		panic("smt: bad store")
	}
	return c.mk(&Term{Op: OpStore, S: arr.S, Args: []*Term{arr, idx, val}})
}

// ---- printing

func constLit(t *Term) string {
	if t.S.K == KBool {
		if t.Val.Sign() != 0 {
			return "true"
		}
		return "false"
	}
	if t.S.W%4 == 0 {
		s := t.Val.Text(16)
		return "#x" + strings.Repeat("0", t.S.W/4-len(s)) + s
	}
	s := t.Val.Text(2)
	return "#b" + strings.Repeat("0", t.S.W-len(s)) + s
}

// Printer emits define-funs for non-leaf terms once per solver scope.
type Printer struct {
	defined map[int]int // term id -> scope level at which it was defined
	ufs     map[string]int
	level   int
	out     *strings.Builder
}

func NewPrinter() *Printer {
	return &Printer{defined: map[int]int{}, ufs: map[string]int{}, out: &strings.Builder{}}
}

func (p *Printer) Push() { p.level++ }
func (p *Printer) Pop() {
	for id, l := range p.defined {
		if l >= p.level {
			delete(p.defined, id)
		}
	}
	for n, l := range p.ufs {
		if l >= p.level {
			delete(p.ufs, n)
		}
	}
	p.level--
}

// Ref returns the textual reference for t, appending any needed definitions
// (and declarations) to the pending output.
func (p *Printer) Ref(t *Term) string {
	switch t.Op {
	case OpConst:
		return constLit(t)
	}
	if _, ok := p.defined[t.ID]; ok {
		return fmt.Sprintf("t!%d", t.ID)
	}
	// iterative post-order to avoid deep recursion
	type fr struct {
		t *Term
		i int
	}
	stack := []fr{{t, 0}}
	for len(stack) > 0 {
		f := &stack[len(stack)-1]
		if f.i < len(f.t.Args) {
			a := f.t.Args[f.i]
			f.i++
			if a.Op != OpConst {
				if _, ok := p.defined[a.ID]; !ok {
					stack = append(stack, fr{a, 0})
				}
			}
			continue
		}
		cur := f.t
		stack = stack[:len(stack)-1]
		if _, ok := p.defined[cur.ID]; ok {
			continue
		}
		p.defined[cur.ID] = p.level
		if cur.Op == OpVar {
			fmt.Fprintf(p.out, "(declare-const t!%d %s) ; %s\n", cur.ID, cur.S, cur.Name)
			continue
		}
		if cur.Op == OpUF {
			if _, ok := p.ufs[cur.Name]; !ok {
				p.ufs[cur.Name] = p.level
				var as []string
				for _, a := range cur.Args {
					as = append(as, a.S.String())
				}
				fmt.Fprintf(p.out, "(declare-fun %s (%s) %s)\n", cur.Name, strings.Join(as, " "), cur.S)
			}
		}
		fmt.Fprintf(p.out, "(define-fun t!%d () %s %s)\n", cur.ID, cur.S, p.body(cur))
	}
	return fmt.Sprintf("t!%d", t.ID)
}

func (p *Printer) argRef(t *Term) string {
	if t.Op == OpConst {
		return constLit(t)
	}
	return fmt.Sprintf("t!%d", t.ID)
}

func (p *Printer) body(t *Term) string {
	var sb strings.Builder
	switch t.Op {
	case OpExtract:
		fmt.Fprintf(&sb, "((_ extract %d %d) %s)", t.P0, t.P1, p.argRef(t.Args[0]))
		return sb.String()
	case OpZext:
		fmt.Fprintf(&sb, "((_ zero_extend %d) %s)", t.P0, p.argRef(t.Args[0]))
		return sb.String()
	case OpSext:
		fmt.Fprintf(&sb, "((_ sign_extend %d) %s)", t.P0, p.argRef(t.Args[0]))
		return sb.String()
	case OpUF:
		sb.WriteString("(" + t.Name)
	default:
		sb.WriteString("(" + opNames[t.Op])
	}
	for _, a := range t.Args {
		sb.WriteString(" ")
		sb.WriteString(p.argRef(a))
	}
	sb.WriteString(")")
	return sb.String()
}

// Take returns and clears the pending definitions.
func (p *Printer) Take() string {
	s := p.out.String()
	p.out.Reset()
	return s
}

// String renders a term as a stand-alone s-expression (for evidence samples).
func (t *Term) String() string {
	var sb strings.Builder
	t.write(&sb, 0)
	return sb.String()
}

func (t *Term) write(sb *strings.Builder, depth int) {
	if sb.Len() > 4000 {
		sb.WriteString("…")
		return
	}
	switch t.Op {
	case OpConst:
		sb.WriteString(constLit(t))
	case OpVar:
		sb.WriteString(t.Name)
	case OpExtract:
		fmt.Fprintf(sb, "((_ extract %d %d) ", t.P0, t.P1)
		t.Args[0].write(sb, depth+1)
		sb.WriteString(")")
	case OpZext, OpSext:
		n := "zero_extend"
		if t.Op == OpSext {
			n = "sign_extend"
		}
		fmt.Fprintf(sb, "((_ %s %d) ", n, t.P0)
		t.Args[0].write(sb, depth+1)
		sb.WriteString(")")
	default:
		name := opNames[t.Op]
		if t.Op == OpUF {
			name = t.Name
		}
		sb.WriteString("(" + name)
		for _, a := range t.Args {
			sb.WriteString(" ")
			a.write(sb, depth+1)
		}
		sb.WriteString(")")
	}
}
