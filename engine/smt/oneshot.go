package smt

import (
	"bytes"
	"fmt"
	"os/exec"
	"strings"
	"time"
)

// OneShot solves (and asserts...) in a fresh, non-incremental solver process.
// z3's incremental mode (push/pop) bypasses its bit-vector tactic pipeline and
// can be orders of magnitude slower on arithmetic-heavy obligations, so proof
// obligations that the incremental session does not settle quickly come here.
// want lists terms whose model values are requested on sat.
func OneShot(kind string, asserts []*Term, want []*Term, timeoutMS int) (Result, []string, string, time.Duration) {
	p := NewPrinter()
	var sb strings.Builder
	if kind == "cvc5" {
		sb.WriteString("(set-logic ALL)\n")
	}
	sb.WriteString("(set-option :produce-models true)\n")
	for _, a := range asserts {
		r := p.Ref(a)
		sb.WriteString(p.Take())
		sb.WriteString("(assert " + r + ")\n")
	}
	var refs []string
	for _, t := range want {
		refs = append(refs, p.Ref(t))
	}
	sb.WriteString(p.Take())
	sb.WriteString("(check-sat)\n")
	if len(refs) > 0 {
		sb.WriteString("(get-value (" + strings.Join(refs, " ") + "))\n")
	}
	var cmd *exec.Cmd
	secs := (timeoutMS + 999) / 1000
	switch kind {
	case "z3":
		cmd = exec.Command("/usr/bin/z3", "-in", "-smt2", fmt.Sprintf("-T:%d", secs))
	case "z3-new":
		cmd = exec.Command("z3-new", "-in", "-smt2", fmt.Sprintf("-T:%d", secs))
	case "cvc5":
		cmd = exec.Command("cvc5", "--lang=smt2", "--produce-models", fmt.Sprintf("--tlimit=%d", timeoutMS))
	default:
		return Unknown, nil, "unknown solver " + kind, 0
	}
	cmd.Stdin = strings.NewReader(sb.String())
	var out bytes.Buffer
	cmd.Stdout = &out
	cmd.Stderr = &out
	start := time.Now()
	cmd.Run()
	el := time.Since(start)
	txt := out.String()
	first := txt
	rest := ""
	if i := strings.IndexByte(txt, '\n'); i >= 0 {
		first, rest = strings.TrimSpace(txt[:i]), txt[i+1:]
	}
	switch first {
	case "unsat":
		return Unsat, nil, "", el
	case "sat":
		if len(refs) == 0 {
			return Sat, nil, "", el
		}
		if strings.Contains(rest, "(error") {
			return Unknown, nil, "solver error: " + rest, el
		}
		vals := parseValues(rest)
		if len(vals) != len(refs) {
			return Unknown, nil, "cannot parse model: " + clipS(rest, 300), el
		}
		return Sat, vals, "", el
	case "unknown", "timeout":
		return Unknown, nil, first, el
	}
	return Unknown, nil, "unexpected solver output: " + clipS(txt, 300), el
}

func clipS(s string, n int) string {
	if len(s) > n {
		return s[:n]
	}
	return s
}

// Script renders the assertions as a stand-alone SMT-LIB2 script.
func Script(asserts []*Term) string {
	p := NewPrinter()
	var sb strings.Builder
	for _, a := range asserts {
		r := p.Ref(a)
		sb.WriteString(p.Take())
		sb.WriteString("(assert " + r + ")\n")
	}
	sb.WriteString("(check-sat)\n")
	return sb.String()
}

// Race runs the same query on several solvers concurrently and returns the
// first definitive (sat/unsat) answer; the others are killed. If every solver
// gives up, the result is Unknown.
func Race(kinds []string, asserts []*Term, want []*Term, timeoutMS int) (Result, []string, string, time.Duration, string) {
	type ans struct {
		r    Result
		vals []string
		why  string
		el   time.Duration
		kind string
	}
	// the script is built once per solver (printers are cheap), processes are
	// independent; context cancellation is done by killing on return.
	ch := make(chan ans, len(kinds))
	cancel := make(chan struct{})
	for _, k := range kinds {
		k := k
		go func() {
			r, vals, why, el := oneShotCancelable(k, asserts, want, timeoutMS, cancel)
			ch <- ans{r, vals, why, el, k}
		}()
	}
	var last ans
	for i := 0; i < len(kinds); i++ {
		a := <-ch
		if a.r != Unknown {
			close(cancel)
			return a.r, a.vals, a.why, a.el, a.kind
		}
		last = a
	}
	close(cancel)
	return Unknown, nil, last.why, last.el, ""
}

func oneShotCancelable(kind string, asserts []*Term, want []*Term, timeoutMS int, cancel <-chan struct{}) (Result, []string, string, time.Duration) {
	p := NewPrinter()
	var sb strings.Builder
	if kind == "cvc5" {
		sb.WriteString("(set-logic ALL)\n")
	}
	sb.WriteString("(set-option :produce-models true)\n")
	for _, a := range asserts {
		r := p.Ref(a)
		sb.WriteString(p.Take())
		sb.WriteString("(assert " + r + ")\n")
	}
	var refs []string
	for _, t := range want {
		refs = append(refs, p.Ref(t))
	}
	sb.WriteString(p.Take())
	sb.WriteString("(check-sat)\n")
	if len(refs) > 0 {
		sb.WriteString("(get-value (" + strings.Join(refs, " ") + "))\n")
	}
	var cmd *exec.Cmd
	secs := (timeoutMS + 999) / 1000
	switch kind {
	case "z3":
		cmd = exec.Command("/usr/bin/z3", "-in", "-smt2", fmt.Sprintf("-T:%d", secs))
	case "z3-new":
		cmd = exec.Command("z3-new", "-in", "-smt2", fmt.Sprintf("-T:%d", secs))
	case "z3:seed", "z3-new:seed":
		bin := "/usr/bin/z3"
		if kind == "z3-new:seed" {
			bin = "z3-new"
		}
		cmd = exec.Command(bin, "-in", "-smt2", fmt.Sprintf("-T:%d", secs), "smt.random_seed=7", "sat.random_seed=7", "smt.arith.random_initial_value=true")
	case "cvc5":
		cmd = exec.Command("cvc5", "--lang=smt2", "--produce-models", fmt.Sprintf("--tlimit=%d", timeoutMS))
	default:
		return Unknown, nil, "unknown solver " + kind, 0
	}
	cmd.Stdin = strings.NewReader(sb.String())
	var out bytes.Buffer
	cmd.Stdout = &out
	cmd.Stderr = &out
	start := time.Now()
	if err := cmd.Start(); err != nil {
		return Unknown, nil, err.Error(), 0
	}
	done := make(chan struct{})
	go func() {
		select {
		case <-cancel:
			cmd.Process.Kill()
		case <-done:
		}
	}()
	cmd.Wait()
	close(done)
	el := time.Since(start)
	txt := out.String()
	first := txt
	rest := ""
	if i := strings.IndexByte(txt, '\n'); i >= 0 {
		first, rest = strings.TrimSpace(txt[:i]), txt[i+1:]
	}
	switch first {
	case "unsat":
		return Unsat, nil, "", el
	case "sat":
		if len(refs) == 0 {
			return Sat, nil, "", el
		}
		if strings.Contains(rest, "(error") {
			return Unknown, nil, "solver error: " + clipS(rest, 300), el
		}
		vals := parseValues(rest)
		if len(vals) != len(refs) {
			return Unknown, nil, "cannot parse model: " + clipS(rest, 300), el
		}
		return Sat, vals, "", el
	case "unknown", "timeout":
		return Unknown, nil, first, el
	}
	if strings.Contains(txt, "(error") {
		return Unknown, nil, "solver error: " + clipS(txt, 300), el
	}
	return Unknown, nil, "no answer (" + clipS(first, 80) + ")", el
}
