package smt

import (
	"bufio"
	"fmt"
	"io"
	"os/exec"
	"strings"
	"time"
)

type Result int

const (
	Unsat Result = iota
	Sat
	Unknown
)

func (r Result) String() string { return [...]string{"unsat", "sat", "unknown"}[r] }

// Solver is one long-lived SMT solver process spoken to over stdin/stdout.
type Solver struct {
	Name    string
	cmd     *exec.Cmd
	in      io.WriteCloser
	out     *bufio.Reader
	P       *Printer
	Queries int
	Time    time.Duration
	Log     io.Writer // optional transcript
	dead    bool
	kind    string
	curTO   int
	nsync   int
}

// NewSolver starts kind = "z3" | "z3-new" | "cvc5".
func NewSolver(kind string) (*Solver, error) {
	var cmd *exec.Cmd
	switch kind {
	case "z3":
		cmd = exec.Command("/usr/bin/z3", "-in", "-smt2")
	case "z3-new":
		cmd = exec.Command("z3-new", "-in", "-smt2")
	case "cvc5":
		cmd = exec.Command("cvc5", "--incremental", "--lang=smt2", "--produce-models", "--bv-print-consts-as-indexed-symbols=false")
	default:
		return nil, fmt.Errorf("unknown solver %q", kind)
	}
	in, err := cmd.StdinPipe()
	if err != nil {
		return nil, err
	}
	outp, err := cmd.StdoutPipe()
	if err != nil {
		return nil, err
	}
	cmd.Stderr = cmd.Stdout
	if err := cmd.Start(); err != nil {
		return nil, err
	}
	s := &Solver{Name: kind, kind: kind, cmd: cmd, in: in, out: bufio.NewReaderSize(outp, 1<<20), P: NewPrinter()}
	if kind == "cvc5" {
		s.send("(set-logic ALL)\n")
	} else {
		s.send("(set-option :produce-models true)\n")
	}
	return s, nil
}

func (s *Solver) send(txt string) {
	if s.Log != nil {
		io.WriteString(s.Log, txt)
	}
	if _, err := io.WriteString(s.in, txt); err != nil {
		s.dead = true
	}
}

func (s *Solver) Close() {
	if s.cmd != nil {
		s.in.Close()
		s.cmd.Process.Kill()
		s.cmd.Wait()
		s.cmd = nil
	}
}

func (s *Solver) Push() { s.P.Push(); s.send("(push 1)\n") }
func (s *Solver) Pop()  { s.P.Pop(); s.send("(pop 1)\n") }

func (s *Solver) Assert(t *Term) {
	if t.S.K != KBool {
		panic("smt: assert of non-bool")
	}
	r := s.P.Ref(t)
	s.send(s.P.Take())
	s.send("(assert " + r + ")\n")
}

// Check runs check-sat with the given timeout in milliseconds.
func (s *Solver) Check(timeoutMS int) (Result, string) {
	if s.dead {
		return Unknown, "solver dead"
	}
	if timeoutMS != s.curTO {
		s.curTO = timeoutMS
		if s.kind == "cvc5" {
			s.send(fmt.Sprintf("(set-option :tlimit-per %d)\n", timeoutMS))
		} else {
			s.send(fmt.Sprintf("(set-option :timeout %d)\n", timeoutMS))
		}
	}
	start := time.Now()
	// Synchronisation marker: everything the solver prints before the marker
	// belongs to earlier commands (an "(error ...)" for a rejected definition
	// or assertion). Such a line must never be taken for the answer, and the
	// answer of this check-sat must never be left in the pipe for a later
	// query; a session that printed anything unexpected is retired.
	s.nsync++
	marker := fmt.Sprintf("gosym-sync-%d", s.nsync)
	s.send("(echo \"" + marker + "\")\n(check-sat)\n")
	s.Queries++
	stray := ""
	for {
		l, err := s.readLine()
		if err != nil {
			s.dead = true
			s.Time += time.Since(start)
			return Unknown, "solver died: " + err.Error()
		}
		if strings.Trim(l, "\"") == marker {
			break
		}
		stray = l
	}
	line, err := s.readLine()
	s.Time += time.Since(start)
	if err != nil {
		s.dead = true
		return Unknown, "solver died: " + err.Error()
	}
	if stray != "" {
		s.retire()
		return Unknown, "solver output before check-sat: " + stray
	}
	switch line {
	case "sat":
		return Sat, ""
	case "unsat":
		return Unsat, ""
	case "unknown":
		return Unknown, "unknown"
	}
	s.retire()
	return Unknown, "unexpected solver output: " + line
}

// retire kills a session whose output stream can no longer be trusted.
func (s *Solver) retire() {
	s.dead = true
	if s.cmd != nil && s.cmd.Process != nil {
		s.cmd.Process.Kill()
	}
}

// Dead reports whether the session must be replaced.
func (s *Solver) Dead() bool { return s.dead }

func (s *Solver) readLine() (string, error) {
	for {
		l, err := s.out.ReadString('\n')
		if err != nil {
			return "", err
		}
		l = strings.TrimSpace(l)
		if l == "" || l == "success" {
			continue
		}
		if s.Log != nil {
			fmt.Fprintf(s.Log, "; -> %s\n", l)
		}
		return l, nil
	}
}

// readSexp reads one balanced s-expression from the solver.
func (s *Solver) readSexp() (string, error) {
	var sb strings.Builder
	depth := 0
	started := false
	for {
		l, err := s.out.ReadString('\n')
		if err != nil {
			return "", err
		}
		for _, ch := range l {
			if ch == '(' {
				depth++
				started = true
			} else if ch == ')' {
				depth--
			}
		}
		sb.WriteString(l)
		if started && depth <= 0 {
			break
		}
		if !started && strings.TrimSpace(l) != "" {
			break
		}
	}
	return sb.String(), nil
}

// Values queries the model for the given (bool / bit-vector) terms after a Sat.
// It returns the values as unsigned big-endian hex strings (no prefix), or
// "true"/"false".
func (s *Solver) Values(ts []*Term) ([]string, error) {
	out := make([]string, len(ts))
	const chunk = 200
	for lo := 0; lo < len(ts); lo += chunk {
		hi := lo + chunk
		if hi > len(ts) {
			hi = len(ts)
		}
		var refs []string
		for _, t := range ts[lo:hi] {
			refs = append(refs, s.P.Ref(t))
		}
		s.send(s.P.Take())
		s.send("(get-value (" + strings.Join(refs, " ") + "))\n")
		txt, err := s.readSexp()
		if err != nil {
			s.dead = true
			return nil, err
		}
		if strings.Contains(txt, "(error") {
			s.retire()
			return nil, fmt.Errorf("solver error: %s", txt)
		}
		vals := parseValues(txt)
		if len(vals) != hi-lo {
			s.retire()
			return nil, fmt.Errorf("cannot parse get-value answer (%d of %d): %s", len(vals), hi-lo, txt)
		}
		copy(out[lo:hi], vals)
	}
	return out, nil
}

// parseValues extracts the value part of each (term value) pair.
func parseValues(txt string) []string {
	var vals []string
	toks := tokenize(txt)
	// expected: ( ( name val ) ( name val ) ... ) ; val may be (_ bvN w)
	i := 0
	if i < len(toks) && toks[i] == "(" {
		i++
	}
	for i < len(toks) && toks[i] == "(" {
		i++ // (
		// name: atom
		i++
		// value
		if i < len(toks) && toks[i] == "(" {
			// (_ bvN w)
			j := i
			var inner []string
			for j < len(toks) && toks[j] != ")" {
				inner = append(inner, toks[j])
				j++
			}
			i = j + 1
			if len(inner) == 4 && inner[1] == "_" && strings.HasPrefix(inner[2], "bv") {
				vals = append(vals, decToHex(inner[2][2:]))
			} else {
				vals = append(vals, strings.Join(inner, " "))
			}
		} else if i < len(toks) {
			v := toks[i]
			i++
			switch {
			case strings.HasPrefix(v, "#x"):
				vals = append(vals, v[2:])
			case strings.HasPrefix(v, "#b"):
				vals = append(vals, binToHex(v[2:]))
			default:
				vals = append(vals, v)
			}
		}
		if i < len(toks) && toks[i] == ")" {
			i++
		}
	}
	return vals
}

func tokenize(s string) []string {
	var toks []string
	cur := ""
	flush := func() {
		if cur != "" {
			toks = append(toks, cur)
			cur = ""
		}
	}
	for _, ch := range s {
		switch ch {
		case '(', ')':
			flush()
			toks = append(toks, string(ch))
		case ' ', '\n', '\t', '\r':
			flush()
		default:
			cur += string(ch)
		}
	}
	flush()
	return toks
}
