package smt

import "math/big"

func decToHex(d string) string {
	b, _ := new(big.Int).SetString(d, 10)
	return b.Text(16)
}

func binToHex(bn string) string {
	b, _ := new(big.Int).SetString(bn, 2)
	return b.Text(16)
}
