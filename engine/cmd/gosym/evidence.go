package main

import (
	"fmt"
	"path/filepath"
	"sort"
	"time"

	"gosym/engine"
)

func writeEvidence(cfg CheckCfg, tier string, seed int, reports []*engine.Report, violations, replays int,
	inconclusive []string, wall, load time.Duration, params map[string]map[string]int) {
	paths, completed, obl, dis, trivial, unknown, feasq, decisions := 0, 0, 0, 0, 0, 0, 0, 0
	var steps int64
	var solverTime time.Duration
	solverCalls := 0
	funcs := map[string]int{}
	var samples []interface{}
	var harnesses []map[string]interface{}
	var ifc int64
	var crossA, crossD, crossU int64
	for _, r := range reports {
		crossA += r.CrossAgreed
		crossD += r.CrossDisagreed
		crossU += r.CrossUndecided
		paths += r.Paths
		completed += r.Completed
		obl += r.Obl
		dis += r.Discharged
		trivial += r.Trivial
		unknown += r.Unknown
		feasq += r.FeasQ
		decisions += r.Decisions
		steps += r.Steps
		solverTime += r.SolverTime
		solverCalls += r.SolverCalls
		ifc += r.IfConverted
		for f, n := range r.Funcs {
			funcs[f] += n
		}
		for i, s := range r.Samples {
			if i < 2 {
				samples = append(samples, map[string]string{"harness": r.Harness, "obligation": s})
			}
		}
		var reached []string
		for t := range r.Reached {
			reached = append(reached, t)
		}
		sort.Strings(reached)
		harnesses = append(harnesses, map[string]interface{}{
			"name": r.Harness, "paths": r.Paths, "completed": r.Completed, "obligations": r.Obl,
			"discharged": r.Discharged, "trivially_true": r.Trivial, "unknown": r.Unknown,
			"feasibility_queries": r.FeasQ, "statuses": r.Statuses, "reached": reached, "vacuity_twins": r.MustFail,
			"solver_s": r.SolverTime.Seconds(), "wall_s": r.Wall.Seconds(), "params": params[r.Harness],
			"if_converted_branches": r.IfConverted, "violations": len(r.Violations),
		})
	}
	if len(samples) == 0 {
		samples = append(samples, "no solver obligation was generated")
	}
	type kv struct {
		k string
		v int
	}
	var fl []kv
	for k, v := range funcs {
		fl = append(fl, kv{k, v})
	}
	sort.Slice(fl, func(i, j int) bool { return fl[i].v > fl[j].v || (fl[i].v == fl[j].v && fl[i].k < fl[j].k) })
	var encoded []string
	for i, e := range fl {
		if i >= 60 {
			break
		}
		encoded = append(encoded, fmt.Sprintf("%s (%d SSA instructions executed)", e.k, e.v))
	}
	cov := map[string]interface{}{
		"states":                        max1(completed),
		"transitions":                   max1(decisions),
		"traces_validated_against_impl": replays,
		"samples":                       samples,
		"obligations":                   obl,
		"discharged":                    dis,
		"trivially_true_obligations":    trivial,
		"unknown_obligations":           unknown,
		"paths_started":                 paths,
		"feasibility_queries":           feasq,
		"solver_queries":                solverCalls,
		"solver_time_s":                 solverTime.Seconds(),
		"ssa_instructions_executed":     steps,
		"functions_encoded":             encoded,
		"functions_encoded_count":       len(fl),
		"harnesses":                     harnesses,
		"bounds":                        cfg.Bounds,
		"outside_the_claim":             cfg.Outside,
		"trusted_base":                  cfg.Trusted,
		"inconclusive":                  inconclusive,
		"load_and_ssa_build_s":          load.Seconds(),
		"solver":                        "z3 4.8.12 (/usr/bin/z3 -in), one process per worker, push/pop, answers read behind a per-query echo marker; unsettled queries: one-shot race of z3 4.8.12 and z3 5.1.0",
		"solver_cross_check":            map[string]interface{}{"what": "every 40th unsat answer of the incremental session (obligations and branch prunings) re-decided by a fresh z3 5.1.0 process, 2 s cap, at most 400 samples per harness, sampling stops after 25 undecided", "agreed": crossA, "disagreed": crossD, "undecided_within_cap": crossU},
		"if_converted_branches":         ifc,
		"exhaustive":                    false,
		"explanation":                   "bounded symbolic execution of the real code from go/ssa; every obligation is an SMT query (unsat = holds for all inputs of the path)",
	}
	if cfg.Level == "translation_validation" {
		progs := 0
		for _, r := range reports {
			for t := range r.Reached {
				if len(t) > 5 && t[:5] == "prog:" {
					progs++
				}
			}
		}
		cov["programs"] = max1(progs)
		cov["disagreements_checked"] = obl
	}
	ev := map[string]interface{}{
		"property_id": cfg.Property,
		"tier":        tier,
		"seed":        seed,
		"level":       cfg.Level,
		"coverage":    cov,
		"assumptions": cfg.Assumptions,
		"wall_s":      wall.Seconds(),
		"violations":  violations,
	}
	writeJSON(filepath.Join(verifDir, "evidence", cfg.Property+".json"), ev)
}

func max1(n int) int {
	if n < 1 {
		return 1
	}
	return n
}
