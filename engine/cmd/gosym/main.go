// gosym: bounded symbolic execution of Go (go/ssa) with SMT-discharged
// obligations. See /verif/DESIGN.md.
package main

import (
	"bufio"
	"bytes"
	"encoding/json"
	"flag"
	"fmt"
	"os"
	"os/exec"
	"path/filepath"
	"regexp"
	"sort"
	"strconv"
	"strings"
	"time"

	"gosym/engine"
)

const (
	verifDir   = "/verif"
	harnessDir = "/verif/harness"
)

// repoDir is the tree under test: /repo, unless GOSYM_REPO names a scratch
// copy (used only to try seeded changes without touching /repo).
var repoDir = func() string {
	if d := os.Getenv("GOSYM_REPO"); d != "" {
		return d
	}
	return "/repo"
}()

type TierCfg struct {
	Params   map[string]int `json:"params"`
	MaxPaths int            `json:"maxPaths"`
	ObligMS  int            `json:"obligMS"`
	FeasMS   int            `json:"feasMS"`
	IncrMS   int            `json:"incrMS"`
	MaxSteps int64          `json:"maxSteps"`
	Skip     bool           `json:"skip"`
}

type HarnessCfg struct {
	Name      string   `json:"name"`
	Pkg       string   `json:"pkg"`
	Func      string   `json:"func"`
	Quick     TierCfg  `json:"quick"`
	Thorough  TierCfg  `json:"thorough"`
	Merge     []string `json:"merge"`
	Abstract  int      `json:"abstractMulDivMinWidth"` // 0 = fully interpreted
	AbstractG bool     `json:"abstractGuards"`
	Reach     []string `json:"reach"`
	MustFail  []string `json:"mustfail"`
	NoIfConv  bool     `json:"noIfConv"`
	Programs  int      `json:"programs"` // translation validation: templates covered per path family
	ProgramBy string   `json:"programBy"`
}

type CheckCfg struct {
	Property    string       `json:"property"`
	Level       string       `json:"level"`
	Files       []string     `json:"files"`
	Patterns    []string     `json:"patterns"`
	Harnesses   []HarnessCfg `json:"harnesses"`
	Assumptions []string     `json:"assumptions"`
	Trusted     []string     `json:"trusted"`
	Bounds      []string     `json:"bounds"`
	Outside     []string     `json:"outside"`
}

type KnownFinding struct {
	Property    string `json:"property"`
	ID          string `json:"id"`
	Status      string `json:"status"` // open | fixed
	Description string `json:"description"`
	Commit      string `json:"commit,omitempty"`
}

func main() {
	if len(os.Args) < 2 {
		fmt.Fprintln(os.Stderr, "usage: gosym check|run|replay ...")
		os.Exit(2)
	}
	switch os.Args[1] {
	case "check":
		os.Exit(cmdCheck(os.Args[2:]))
	case "replay":
		os.Exit(cmdReplay(os.Args[2:]))
	default:
		fmt.Fprintln(os.Stderr, "unknown command", os.Args[1])
		os.Exit(2)
	}
}

var destRe = regexp.MustCompile(`(?m)^//verif:dest (\S+)`)

// buildOverlay maps harness files to their destination inside /repo.
func buildOverlay(files []string) (map[string][]byte, map[string]string, error) {
	ov := map[string][]byte{}
	paths := map[string]string{}
	for _, f := range files {
		src := filepath.Join(harnessDir, f)
		b, err := os.ReadFile(src)
		if err != nil {
			return nil, nil, err
		}
		m := destRe.FindSubmatch(b)
		if m == nil {
			return nil, nil, fmt.Errorf("%s: missing //verif:dest header", f)
		}
		dst := filepath.Join(repoDir, string(m[1]))
		ov[dst] = b
		paths[dst] = src
	}
	return ov, paths, nil
}

func loadKnown() []KnownFinding {
	b, err := os.ReadFile(filepath.Join(verifDir, "known_findings.json"))
	if err != nil {
		return nil
	}
	var k struct {
		Findings []KnownFinding `json:"findings"`
	}
	if err := json.Unmarshal(b, &k); err != nil {
		fmt.Fprintln(os.Stderr, "known_findings.json:", err)
		os.Exit(2)
	}
	return k.Findings
}

func cmdCheck(args []string) int {
	fs := flag.NewFlagSet("check", flag.ExitOnError)
	prop := fs.String("property", "", "property id")
	tier := fs.String("tier", os.Getenv("VERIF_TIER"), "quick|thorough")
	only := fs.String("only", "", "run only this harness (development)")
	workers := fs.Int("workers", 16, "parallel workers")
	trace := fs.Bool("trace", false, "print every path")
	cross := fs.Int("cross", 40, "re-decide every n-th incremental unsat answer one-shot with z3 5.1.0 (0 = off)")
	noReplay := fs.Bool("noreplay", false, "skip native replay (development)")
	solver := fs.String("solver", "z3", "z3|z3-new|cvc5")
	noEvidence := fs.Bool("noevidence", false, "do not write evidence")
	fs.Parse(args)
	if *tier == "" {
		*tier = "quick"
	}
	seed, _ := strconv.Atoi(os.Getenv("VERIF_SEED"))
	start := time.Now()

	cfgPath := filepath.Join(verifDir, "checks", *prop+".json")
	b, err := os.ReadFile(cfgPath)
	if err != nil {
		fmt.Println("INCONCLUSIVE property=" + *prop + " reason=no-config " + err.Error())
		return 2
	}
	var cfg CheckCfg
	if err := json.Unmarshal(b, &cfg); err != nil {
		fmt.Println("INCONCLUSIVE property=" + *prop + " reason=bad-config " + err.Error())
		return 2
	}
	ov, ovPaths, err := buildOverlay(cfg.Files)
	if err != nil {
		fmt.Println("INCONCLUSIVE property=" + *prop + " reason=overlay " + err.Error())
		return 2
	}
	tLoad := time.Now()
	P, err := engine.Load(repoDir, ov, cfg.Patterns)
	if err != nil {
		fmt.Println("HARNESS-BUILD-FAILED property=" + *prop)
		fmt.Println(err)
		fmt.Println("INCONCLUSIVE property=" + *prop + " reason=harness-build-failed")
		return 2
	}
	loadTime := time.Since(tLoad)

	open := map[string]bool{}
	knownDesc := map[string]string{}
	for _, k := range loadKnown() {
		if k.Property == cfg.Property && k.Status == "open" {
			open[k.ID] = true
			knownDesc[k.ID] = k.Description
		}
	}

	var reports []*engine.Report
	var allViol []engine.Violation
	knownHits := map[string]engine.Violation{}
	inconclusive := []string{}
	tierParams := map[string]map[string]int{}
	for _, h := range cfg.Harnesses {
		if *only != "" && h.Name != *only {
			continue
		}
		tc := h.Quick
		if *tier == "thorough" {
			tc = h.Thorough
			if tc.Params == nil && tc.MaxPaths == 0 && tc.ObligMS == 0 && !tc.Skip {
				tc = h.Quick
			}
		}
		if tc.Skip {
			continue
		}
		fn := P.Func(h.Pkg, h.Func)
		if fn == nil {
			fmt.Printf("INCONCLUSIVE property=%s reason=harness-function-missing %s.%s\n", cfg.Property, h.Pkg, h.Func)
			return 2
		}
		x := &engine.Explorer{P: P, Harness: h.Name, Fn: fn, Workers: *workers, SolverCmd: *solver,
			Merge: map[string]bool{}, OpenKnown: open, Params: map[string]int{}, NoIfConv: h.NoIfConv, Trace: *trace, CrossEvery: *cross}
		for k, v := range tc.Params {
			x.Params[k] = v
		}
		x.Params["seed"] = seed
		tierParams[h.Name] = x.Params
		for _, m := range h.Merge {
			x.Merge[m] = true
		}
		x.Lim = engine.Limits{FeasMS: 2000, ObligMS: 60000, MaxSteps: 20_000_000}
		if *tier == "thorough" {
			x.Lim.ObligMS = 300000
		}
		if tc.ObligMS > 0 {
			x.Lim.ObligMS = tc.ObligMS
		}
		if tc.FeasMS > 0 {
			x.Lim.FeasMS = tc.FeasMS
		}
		if tc.IncrMS > 0 {
			x.Lim.IncrMS = tc.IncrMS
		}
		if tc.MaxSteps > 0 {
			x.Lim.MaxSteps = tc.MaxSteps
		}
		x.MaxPaths = tc.MaxPaths
		if h.Abstract > 0 {
			x.Abstract, x.AbstractW, x.AbstractG = true, h.Abstract, h.AbstractG
		}
		rep := x.Run()
		reports = append(reports, rep)
		fmt.Printf("harness %-28s paths=%d completed=%d obligations=%d discharged=%d trivial=%d unknown=%d feasq=%d ifconv=%d solver=%.1fs oneshots=%d%v cross=%d/%d/%d wall=%.1fs statuses=%v\n",
			h.Name, rep.Paths, rep.Completed, rep.Obl, rep.Discharged, rep.Trivial, rep.Unknown, rep.FeasQ, rep.IfConverted,
			rep.SolverTime.Seconds(), rep.OneShots, rep.Winners, rep.CrossAgreed, rep.CrossDisagreed, rep.CrossUndecided, rep.Wall.Seconds(), rep.Statuses)
		if os.Getenv("GOSYM_TIMING") != "" {
			fmt.Println("  timing:", x.Timing())
		}
		for m, n := range rep.Msgs {
			fmt.Printf("  [%d×] %s\n", n, clip(m, 1500))
		}
		for _, n := range rep.Notes {
			fmt.Printf("  note: %s\n", clip(n, 400))
		}
		for _, v := range rep.Violations {
			v.Pkg, v.Func, v.Property, v.Params = h.Pkg, h.Func, cfg.Property, x.Params
			allViol = append(allViol, v)
		}
		for id, v := range rep.KnownHits {
			if _, ok := knownHits[id]; !ok {
				v.Pkg, v.Func, v.Property, v.Params = h.Pkg, h.Func, cfg.Property, x.Params
				knownHits[id] = v
			}
		}
		// conclusiveness
		for st, n := range rep.Statuses {
			switch st {
			case "ok", "infeasible", "violation":
			default:
				inconclusive = append(inconclusive, fmt.Sprintf("%s: %d path(s) ended with %s", h.Name, n, st))
			}
		}
		if rep.Unknown > 0 {
			inconclusive = append(inconclusive, fmt.Sprintf("%s: %d obligation(s) unknown/timeout", h.Name, rep.Unknown))
		}
		if rep.Truncated {
			inconclusive = append(inconclusive, fmt.Sprintf("%s: path budget %d exhausted", h.Name, tc.MaxPaths))
		}
		if rep.Completed == 0 {
			inconclusive = append(inconclusive, h.Name+": no path completed (vacuous)")
		}
		if rep.Obl+rep.Trivial == 0 {
			inconclusive = append(inconclusive, h.Name+": no obligation reached (vacuous)")
		}
		for _, tag := range h.Reach {
			if !rep.Reached[tag] {
				inconclusive = append(inconclusive, fmt.Sprintf("%s: reachability witness %q not reached", h.Name, tag))
			}
		}
		for _, tag := range h.MustFail {
			if !rep.MustFail[tag] {
				inconclusive = append(inconclusive, fmt.Sprintf("%s: vacuity twin %q did not fail", h.Name, tag))
			}
		}
		for tag, ok := range rep.MustFail {
			if !ok {
				listed := false
				for _, t := range h.MustFail {
					if t == tag {
						listed = true
					}
				}
				if !listed {
					inconclusive = append(inconclusive, fmt.Sprintf("%s: vacuity twin %q did not fail", h.Name, tag))
				}
			}
		}
	}

	// ---- native replay of counterexamples
	os.MkdirAll(filepath.Join(verifDir, "replays"), 0o755)
	confirmed := []string{}
	spurious := 0
	replays := 0
	if len(allViol) > 0 || len(knownHits) > 0 {
		var cases []engine.Violation
		// at most a handful per harness+message to keep replay time bounded
		seen := map[string]int{}
		for _, v := range allViol {
			k := v.Harness + "|" + v.Msg
			seen[k]++
			if seen[k] <= 2 {
				cases = append(cases, v)
			}
		}
		nViol := len(cases)
		var knownIDs []string
		for id := range knownHits {
			knownIDs = append(knownIDs, id)
		}
		sort.Strings(knownIDs)
		for _, id := range knownIDs {
			cases = append(cases, knownHits[id])
		}
		var results []replayResult
		if *noReplay {
			for range cases {
				results = append(results, replayResult{"failed", "(replay skipped)"})
			}
		} else {
			results, err = nativeReplay(P, cfg, ovPaths, cases)
			if err != nil {
				inconclusive = append(inconclusive, "native replay failed: "+err.Error())
				results = make([]replayResult, len(cases))
			}
		}
		replays = len(cases)
		for i, c := range cases {
			r := results[i]
			if i < nViol {
				path := filepath.Join(verifDir, "replays", fmt.Sprintf("%s-%s-%d.json", cfg.Property, c.Harness, i))
				writeJSON(path, map[string]interface{}{"cases": []engine.Violation{c}})
				switch r.status {
				case "failed":
					fmt.Printf("  counterexample (%s) harness=%s: %s\n    native replay: %s %s\n", c.Kind, c.Harness, clip(c.Msg, 300), r.status, clip(r.msg, 300))
					confirmed = append(confirmed, path)
				default:
					spurious++
					fmt.Printf("  SPURIOUS model harness=%s msg=%s: native replay says %s %s (file %s)\n", c.Harness, clip(c.Msg, 200), r.status, clip(r.msg, 200), path)
					inconclusive = append(inconclusive, fmt.Sprintf("%s: solver model did not reproduce natively (%s)", c.Harness, r.status))
				}
			} else {
				id := c.Known
				if r.status == "failed" {
					fmt.Printf("KNOWN-FINDING: property=%s %s: %s\n", cfg.Property, id, knownDesc[id])
				} else {
					fmt.Printf("  known finding %s: witness did not reproduce natively (%s %s)\n", id, r.status, clip(r.msg, 200))
					inconclusive = append(inconclusive, "known finding "+id+": witness model did not reproduce natively")
				}
			}
		}
	}

	wall := time.Since(start)
	if !*noEvidence {
		writeEvidence(cfg, *tier, seed, reports, len(confirmed), replays, inconclusive, wall, loadTime, tierParams)
	}
	if len(confirmed) > 0 {
		for _, p := range confirmed {
			fmt.Printf("VIOLATION property=%s replay=%s\n", cfg.Property, p)
		}
		return 1
	}
	if len(inconclusive) > 0 {
		for _, r := range inconclusive {
			fmt.Printf("INCONCLUSIVE property=%s reason=%s\n", cfg.Property, r)
		}
		return 2
	}
	fmt.Printf("OK property=%s tier=%s wall=%.1fs\n", cfg.Property, *tier, wall.Seconds())
	return 0
}

func clip(s string, n int) string {
	if len(s) > n {
		return s[:n] + "…"
	}
	return s
}

func writeJSON(path string, v interface{}) {
	b, _ := json.MarshalIndent(v, "", " ")
	os.WriteFile(path, b, 0o644)
}

type replayResult struct{ status, msg string }

// nativeReplay runs the cases with `go test -overlay` against the real build.
func nativeReplay(P *engine.Program, cfg CheckCfg, ovPaths map[string]string, cases []engine.Violation) ([]replayResult, error) {
	results := make([]replayResult, len(cases))
	for i := range results {
		results[i] = replayResult{"not-run", ""}
	}
	tmp, err := os.MkdirTemp("", "gosym-replay-")
	if err != nil {
		return nil, err
	}
	defer os.RemoveAll(tmp)
	// group by package
	byPkg := map[string][]int{}
	for i, c := range cases {
		byPkg[c.Pkg] = append(byPkg[c.Pkg], i)
	}
	replace := map[string]string{}
	for dst, src := range ovPaths {
		replace[dst] = src
	}
	replace[filepath.Join(repoDir, "internal/zzverif/sym/replay.go")] = filepath.Join(harnessDir, "sym/replay.go")
	for pkg, idxs := range byPkg {
		var pkgName, pkgDir string
		for _, sp := range P.Prog.AllPackages() {
			if sp.Pkg.Path() == pkg {
				pkgName = sp.Pkg.Name()
			}
		}
		pkgDir = filepath.Join(repoDir, strings.TrimPrefix(pkg, "mltwist/"))
		fnset := map[string]bool{}
		for _, i := range idxs {
			fnset[cases[i].Func] = true
		}
		var sb strings.Builder
		fmt.Fprintf(&sb, "//go:build verif\n\npackage %s\n\nimport (\n\t\"testing\"\n\n\t\"mltwist/internal/zzverif/sym\"\n)\n\nfunc TestVerifReplay(t *testing.T) {\n\tsym.RunReplays(t, map[string]func(){\n", pkgName)
		for f := range fnset {
			fmt.Fprintf(&sb, "\t\t%q: %s,\n", f, f)
		}
		sb.WriteString("\t})\n}\n")
		testFile := filepath.Join(tmp, "replay_"+pkgName+"_test.go")
		os.WriteFile(testFile, []byte(sb.String()), 0o644)
		rep := map[string]string{}
		for k, v := range replace {
			rep[k] = v
		}
		rep[filepath.Join(pkgDir, "zz_verif_replay_test.go")] = testFile
		ovFile := filepath.Join(tmp, "overlay_"+pkgName+".json")
		writeJSON(ovFile, map[string]interface{}{"Replace": rep})
		var sub []engine.Violation
		for _, i := range idxs {
			sub = append(sub, cases[i])
		}
		caseFile := filepath.Join(tmp, "cases_"+pkgName+".json")
		writeJSON(caseFile, map[string]interface{}{"cases": sub})
		cmd := exec.Command("go", "test", "-tags", "verif", "-vet=off", "-count=1", "-overlay", ovFile, "-run", "^TestVerifReplay$", "-timeout", "600s", "-v", pkg)
		cmd.Dir = repoDir
		cmd.Env = append(os.Environ(), "GOFLAGS=-mod=mod", "GOPROXY=off", "GOSUMDB=off", "GOTOOLCHAIN=local", "VERIF_REPLAY="+caseFile)
		out, err := cmd.CombinedOutput()
		sc := bufio.NewScanner(bytes.NewReader(out))
		sc.Buffer(make([]byte, 1<<20), 1<<24)
		got := 0
		for sc.Scan() {
			l := sc.Text()
			if !strings.HasPrefix(l, "VERIF-RESULT ") {
				continue
			}
			parts := strings.SplitN(l, " ", 4)
			if len(parts) < 4 {
				continue
			}
			k, _ := strconv.Atoi(parts[1])
			if k >= 0 && k < len(idxs) {
				msg, _ := strconv.Unquote(parts[3])
				results[idxs[k]] = replayResult{parts[2], msg}
				got++
			}
		}
		if got != len(idxs) {
			return results, fmt.Errorf("go test for %s gave %d of %d results (err=%v):\n%s", pkg, got, len(idxs), err, clip(string(out), 3000))
		}
	}
	return results, nil
}

func cmdReplay(args []string) int {
	if len(args) < 1 {
		fmt.Fprintln(os.Stderr, "usage: gosym replay <file>")
		return 2
	}
	b, err := os.ReadFile(args[0])
	if err != nil {
		fmt.Fprintln(os.Stderr, err)
		return 2
	}
	var rf struct {
		Cases []engine.Violation `json:"cases"`
	}
	if err := json.Unmarshal(b, &rf); err != nil || len(rf.Cases) == 0 {
		fmt.Fprintln(os.Stderr, "bad replay file")
		return 2
	}
	prop := rf.Cases[0].Property
	cb, err := os.ReadFile(filepath.Join(verifDir, "checks", prop+".json"))
	if err != nil {
		fmt.Fprintln(os.Stderr, err)
		return 2
	}
	var cfg CheckCfg
	json.Unmarshal(cb, &cfg)
	ov, ovPaths, err := buildOverlay(cfg.Files)
	if err != nil {
		fmt.Fprintln(os.Stderr, err)
		return 2
	}
	P, err := engine.Load(repoDir, ov, cfg.Patterns)
	if err != nil {
		fmt.Fprintln(os.Stderr, err)
		return 2
	}
	res, err := nativeReplay(P, cfg, ovPaths, rf.Cases)
	if err != nil {
		fmt.Fprintln(os.Stderr, err)
		return 2
	}
	rc := 0
	for i, r := range res {
		fmt.Printf("case %d (%s): %s %s\n", i, rf.Cases[i].Harness, r.status, r.msg)
		if r.status == "failed" {
			fmt.Printf("VIOLATION property=%s replay=%s\n", prop, args[0])
			rc = 1
		}
	}
	return rc
}
