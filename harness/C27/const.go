//go:build verif

//verif:dest pkg/expr/zz_verif_c27.go

package expr

import (
	"fmt"

	"mltwist/internal/zzverif/sym"
)

// C27: constants encode integers exactly.

func vLEBytesOK(c Const, v sym.BV, w int) bool {
	ok := true
	for i := 0; i < w; i++ {
		var b uint8
		if 8*i < v.Width() {
			hi := 8*i + 7
			if hi >= v.Width() {
				hi = v.Width() - 1
			}
			b = v.Extract(hi, 8*i).ZExt(8).Uint8()
		}
		ok = sym.And(ok, c.bs[i] == b)
	}
	return ok
}

// vUintCase checks NewConstUint[T] for one unsigned type given as a 64-bit
// symbolic value already restricted to T's range.
func vUintCase[T ~uint8 | ~uint16 | ~uint32 | ~uint64](name string, val T, bits int, w Width) {
	var c Const
	panicked := sym.Panics(func() { c = NewConstUint(val, w) })
	v := sym.BV64(uint64(val))
	fits := true
	if 8*int(w) < 64 {
		fits = v.Ult(sym.BVConst(1, 64).Shl(sym.BVConst(uint64(8*int(w)), 64)))
	}
	sym.Assert(panicked == !fits, name+": NewConstUint fails exactly when the value is outside the unsigned range of w bytes")
	if !panicked {
		sym.Reach(name + "-ok")
		sym.Assert(int(c.Width()) == int(w), name+": width")
		sym.Assert(vLEBytesOK(c, v, int(w)), name+": little-endian encoding")
	} else {
		sym.Reach(name + "-panics")
	}
	_ = bits
}

func vIntCase[T ~int8 | ~int16 | ~int32 | ~int64](name string, val T, bits int, w Width) {
	var c Const
	panicked := sym.Panics(func() { c = NewConstInt(val, w) })
	v := sym.BV64(uint64(int64(val))) // sign-extended to 64 bits
	fits := true
	if 8*int(w) < 64 {
		// in range iff sign-extending the low 8w bits gives the value back
		fits = v.Extract(8*int(w)-1, 0).SExt(64).Eq(v)
	}
	sym.Assert(panicked == !fits, name+": NewConstInt fails exactly when the value is outside the signed range of w bytes")
	if !panicked {
		sym.Reach(name + "-ok")
		sym.Assert(int(c.Width()) == int(w), name+": width")
		ext := 128
		if 8*int(w) > ext {
			ext = 8 * int(w)
		}
		sym.Assert(vLEBytesOK(c, v.SExt(ext), int(w)), name+": little-endian two's-complement encoding")
	} else {
		sym.Reach(name + "-panics")
	}
	_ = bits
}

func VerifC27New() {
	w := Width(vWidth27())
	switch sym.Choose(8) {
	case 0:
		vUintCase("uint8", sym.Uint8("v"), 8, w)
	case 1:
		vUintCase("uint16", sym.Uint16("v"), 16, w)
	case 2:
		vUintCase("uint32", sym.Uint32("v"), 32, w)
	case 3:
		vUintCase("uint64", sym.Uint64("v"), 64, w)
	case 4:
		vIntCase("int8", sym.Int8("v"), 8, w)
	case 5:
		vIntCase("int16", sym.Int16("v"), 16, w)
	case 6:
		vIntCase("int32", sym.Int32("v"), 32, w)
	case 7:
		vIntCase("int64", sym.Int64("v"), 64, w)
	}
}

// vConstUintCase checks ConstUint[T]: low bytes and the fits flag.
func vConstUintCase[T ~uint8 | ~uint16 | ~uint32 | ~uint64](name string, c Const, bits int) {
	var got T
	var fits bool
	sym.NoPanic(func() { got, fits = ConstUint[T](c) })
	n := len(c.bs)
	v := sym.BVBytes(c.bs)
	sym.Assert(sym.BV64(uint64(got)).Eq(v.ZExt(bits).ZExt(64)), name+": ConstUint returns the low bytes")
	hiZero := true
	if 8*n > bits {
		hiZero = v.Extract(8*n-1, bits).Eq(sym.BVConst(0, 8*n-bits))
	}
	sym.Assert(fits == hiZero, name+": fits is reported exactly when the higher bytes are zero")
	if 8*n > bits {
		sym.Reach(name + "-wider")
	}
}

func VerifC27Read() {
	w := vWidth27()
	src := sym.Bytes("src", w)
	c := NewConst(src, Width(w))
	switch sym.Choose(4) {
	case 0:
		vConstUintCase[uint8]("uint8", c, 8)
	case 1:
		vConstUintCase[uint16]("uint16", c, 16)
	case 2:
		vConstUintCase[uint32]("uint32", c, 32)
	case 3:
		vConstUintCase[uint64]("uint64", c, 64)
	}
}

// VerifC27Copy: a constant never changes when the caller later modifies the
// bytes it was created from; WithWidth adjusts by zero-extension/truncation.
func VerifC27Copy() {
	n := 1 + sym.Choose(4)
	w := Width(1 + sym.Choose(5))
	src := sym.Bytes("src", n)
	orig := make([]byte, n)
	copy(orig, src)
	c := NewConst(src, w)
	for i := range src {
		src[i] = sym.Uint8(fmt.Sprintf("scribble%d", i))
	}
	ok := true
	for i := 0; i < int(w); i++ {
		var want byte
		if i < n {
			want = orig[i]
		}
		ok = sym.And(ok, c.Bytes()[i] == want)
	}
	sym.Assert(int(c.Width()) == int(w) && ok, "NewConst copies: later writes to the source slice do not change the constant")
	w2 := Width(1 + sym.Choose(5))
	c2 := c.WithWidth(w2)
	ok2 := int(c2.Width()) == int(w2)
	for i := 0; i < int(w2) && i < len(c2.Bytes()); i++ {
		var want byte
		if i < int(w) && i < n {
			want = orig[i]
		}
		ok2 = sym.And(ok2, c2.Bytes()[i] == want)
	}
	sym.Assert(ok2, "WithWidth zero-extends or truncates")
	sym.MustFail(c.Bytes()[0] == src[0], "twin: constant aliases the source slice")
}

// vWidth27: every width 1..maxw and the widths around the 32-byte mark, where
// 8*w no longer fits a byte (Width is a uint8), plus the largest ones.
func vWidth27() int {
	maxw := sym.Param("maxw", 9)
	extras := []int{31, 32, 33, 64, 128, 255}
	i := sym.Choose(maxw + len(extras))
	if i < maxw {
		return 1 + i
	}
	return extras[i-maxw]
}
