//go:build verif

//verif:dest internal/deps/zz_verif_deps.go

package deps

import (
	"fmt"

	"mltwist/internal/zzverif/sym"
	"mltwist/pkg/expr"
	"mltwist/pkg/model"
)

// C06 / C07 harnesses. The dependency code reads only an instruction's summary
// (register sets, memory accesses, type bits, whether it has jump targets), so
// instructions are built directly from summaries.

type vSummary struct {
	in, out  []expr.Key
	load     bool
	store    bool
	shape    int // further memory access shapes, see vAccess
	typ      model.Type
	jumps    bool
	length   int
}

var vRegs = []expr.Key{"a", "b", expr.IPKey}

// vSpace2 is the key of the second memory space. It is deliberately the same
// string as register "a": register keys and memory-space keys are separate
// namespaces, so sharing a key must not create a dependency.
const vSpace2 = expr.Key("a")

func vSubset(keys []expr.Key) []expr.Key {
	var r []expr.Key
	for _, k := range keys {
		if sym.Choose(2) == 1 {
			r = append(r, k)
		}
	}
	return r
}

func vSymSummary(full bool) vSummary {
	s := vSummary{length: 4}
	if full {
		s.in = vSubset(vRegs[:2])
		s.out = vSubset(vRegs)
	} else {
		// compact pool: one register read or written
		switch sym.Choose(5) {
		case 1:
			s.in = []expr.Key{"a"}
		case 2:
			s.out = []expr.Key{"a"}
		case 3:
			s.in, s.out = []expr.Key{"b"}, []expr.Key{"a"}
		case 4:
			s.out = []expr.Key{"b"}
		}
	}
	nshapes := 6
	if full {
		nshapes = 9
	}
	if m := sym.Param("memshapes", 0); m > 0 {
		nshapes = m // 3 = none / one load / one store only
	}
	switch c := sym.Choose(nshapes); c {
	case 0:
	case 1:
		s.load = true
	case 2:
		s.store = true
	default:
		s.shape = c - 2
	}
	switch sym.Choose(4) {
	case 1:
		s.typ = model.TypeMemOrder
	case 2:
		s.typ = model.TypeSyscall
	case 3:
		s.typ = model.TypeCPUStateChange
	}
	return s
}

func vMkInstr(s vSummary, addr model.Addr, tag int) *instruction {
	ins := &instruction{
		typ:      s.typ,
		origAddr: addr,
		currAddr: addr,
		bytes:    make([]byte, s.length),
		inRegs:   regSet{},
		outRegs:  regSet{},
		depsFwd:  make(insSet, 5),
		depsBack: make(insSet, 5),
		blockIdx: -1,
	}
	for _, k := range s.in {
		ins.inRegs[k] = struct{}{}
	}
	for _, k := range s.out {
		ins.outRegs[k] = struct{}{}
	}
	for _, k := range []expr.Key{"m", vSpace2} {
		r, w := vAccess(s, k)
		for i := 0; i < r; i++ {
			ins.loads = append(ins.loads, expr.NewMemLoad(k, expr.Zero, 1))
		}
		for i := 0; i < w; i++ {
			ins.stores = append(ins.stores, expr.NewMemStore(expr.Zero, k, expr.Zero, 1))
		}
	}
	if s.jumps {
		ins.jumpTargets = []expr.Expr{expr.NewRegLoad("t", 8)}
	}
	ins.bytes[0] = byte(tag)
	return ins
}

func vHas(ks []expr.Key, k expr.Key) bool {
	for _, x := range ks {
		if x == k {
			return true
		}
	}
	return false
}

func vShareReg(a, b vSummary) bool {
	for _, k := range vRegs {
		if (vHas(a.in, k) || vHas(a.out, k)) && (vHas(b.in, k) || vHas(b.out, k)) {
			return true
		}
	}
	return false
}

// vAccess: number of loads and stores of the summary in memory space k.
// shapes: 1 two stores to m, 2 load and store of m, 3 store to m and to n,
// 4 two loads of m, 5 load of n, 6 store to n.
func vAccess(s vSummary, k expr.Key) (loads, stores int) {
	if k == "m" {
		if s.load {
			loads++
		}
		if s.store {
			stores++
		}
		switch s.shape {
		case 1:
			stores += 2
		case 2:
			loads, stores = loads+1, stores+1
		case 3:
			stores++
		case 4:
			loads += 2
		}
		return
	}
	switch s.shape {
	case 3, 6:
		stores++
	case 5:
		loads++
	}
	return
}

func vMemAccess(s vSummary) bool {
	for _, k := range []expr.Key{"m", vSpace2} {
		if r, w := vAccess(s, k); r+w > 0 {
			return true
		}
	}
	return false
}

// vMemConflict: both access one memory space and at least one of them writes it.
func vMemConflict(a, b vSummary) bool {
	for _, k := range []expr.Key{"m", vSpace2} {
		ar, aw := vAccess(a, k)
		br, bw := vAccess(b, k)
		if ar+aw > 0 && br+bw > 0 && aw+bw > 0 {
			return true
		}
	}
	return false
}
func vSpecial(s vSummary) bool   { return s.typ.Syscall() || s.typ.CPUStateChange() }

// vIndependent is the antecedent of C06 for adjacent instructions a (earlier), b (later).
func vIndependent(a, b vSummary, bIsTerminatingJump bool) bool {
	if vShareReg(a, b) {
		return false
	}
	if vMemConflict(a, b) {
		return false
	}
	if vSpecial(a) || vSpecial(b) {
		return false
	}
	if a.typ.MemOrder() && (vMemAccess(b) || b.typ.MemOrder()) {
		return false
	}
	if b.typ.MemOrder() && (vMemAccess(a) || a.typ.MemOrder()) {
		return false
	}
	if bIsTerminatingJump {
		return false
	}
	return true
}

// VerifC06Swap: independent adjacent instructions may always be swapped, alone
// and with a neutral neighbour before or after.
func VerifC06Swap() {
	full := sym.Param("full", 0) == 1
	a, b := vSymSummary(full), vSymSummary(full)
	context := sym.Choose(3) // 0: pair alone, 1: neutral instruction before, 2: after
	if context != 2 {
		// b is the last instruction: it may be the block's terminating jump
		b.jumps = sym.Choose(2) == 1
	}
	var seq []*instruction
	addr := model.Addr(0x1000)
	neutral := vSummary{length: 4}
	pos := 0
	if context == 1 {
		seq = append(seq, vMkInstr(neutral, addr, 9))
		addr += 4
		pos = 1
	}
	seq = append(seq, vMkInstr(a, addr, 1), vMkInstr(b, addr+4, 2))
	if context == 2 {
		seq = append(seq, vMkInstr(neutral, addr+8, 9))
	}
	var blk *block
	sym.NoPanic(func() { blk = newBlock(0, seq) })
	if !vIndependent(a, b, b.jumps) {
		sym.Reach("dependent-pair")
		return
	}
	sym.Reach("independent-pair")
	var err1, err2 error
	sym.NoPanic(func() {
		err1 = blk.Move(pos, pos+1)
		if err1 == nil {
			_ = blk.Move(pos+1, pos) // restore
		}
		err2 = blk.Move(pos+1, pos)
	})
	sym.Assert(err1 == nil, "independent adjacent instructions: the earlier one can be moved behind the later one")
	sym.Assert(err2 == nil, "independent adjacent instructions: the later one can be moved before the earlier one")
}

// ---- C07

func vBlockOK(tag string, blk *block, begin model.Addr, order []*instruction) {
	// contiguous addresses from the block start in the current order, indices consistent
	a := begin
	for i, ins := range blk.seq {
		sym.Assert(ins == order[i], tag+": instructions are in the expected order")
		sym.Assert(ins.blockIdx == i, tag+": every instruction knows its index")
		sym.Assert(ins.Begin() == a, tag+": instructions occupy contiguous addresses from the block start")
		a = ins.End()
		// within its own reported bounds, after everything it depends on
		sym.Assert(blk.LowerBound(i) <= i && i <= blk.UpperBound(i), tag+": every instruction lies within its reported bounds")
		for d := range ins.depsBack {
			sym.Assert(d.blockIdx < i, tag+": every instruction follows the instructions it depends on")
		}
	}
	sym.Assert(a == blk.End(), tag+": the block keeps its extent")
}

func VerifC07Moves() {
	n := 2 + sym.Choose(sym.Param("maxn", 3)-1)
	begin := model.Addr(sym.SmallBase("begin"))
	var seq []*instruction
	var sums []vSummary
	addr := begin
	pool := []vSummary{
		{}, {in: []expr.Key{"a"}}, {out: []expr.Key{"a"}}, {store: true},
		{in: []expr.Key{"b"}, out: []expr.Key{"a"}}, {load: true}, {typ: model.TypeMemOrder},
	}
	pool = pool[:sym.Param("pool", 4)]
	lenPattern := sym.Choose(3)
	for i := 0; i < n; i++ {
		s := pool[sym.Choose(len(pool))]
		switch lenPattern {
		case 0:
			s.length = 4
		case 1:
			s.length = 2 + 2*(i%2)
		default:
			s.length = 4 - 2*(i%2)
		}
		if i == n-1 {
			s.jumps = sym.Choose(2) == 1
		}
		sums = append(sums, s)
		seq = append(seq, vMkInstr(s, addr, i))
		addr += model.Addr(s.length)
	}
	var blk *block
	sym.NoPanic(func() { blk = newBlock(0, seq) })
	order := append([]*instruction(nil), blk.seq...)
	vBlockOK("initially", blk, begin, order)

	moves := sym.Param("moves", 1)
	for m := 0; m < moves; m++ {
		from, to := sym.Int(fmt.Sprintf("from%d", m)), sym.Int(fmt.Sprintf("to%d", m))
		valid := sym.And(sym.And(from >= 0, from < n), sym.And(to >= 0, to < n))
		var lo, hi int
		var err error
		before := append([]*instruction(nil), blk.seq...)
		sym.NoPanic(func() {
			if from >= 0 && from < n { // forks over the feasible values
				lo, hi = blk.LowerBound(from), blk.UpperBound(from)
			}
			err = blk.Move(from, to)
		})
		within := sym.And(valid, sym.And(lo <= to, to <= hi))
		sym.Assert((err == nil) == within, "a move succeeds exactly when both positions are valid and the target lies within the reported bounds")
		if err != nil {
			sym.Reach("move-rejected")
			for i := range before {
				sym.Assert(blk.seq[i] == before[i], "a rejected move changes nothing")
			}
			order = before
		} else {
			sym.Reach("move-accepted")
			// expected order: element from removed and inserted at to
			var exp []*instruction
			for i, x := range before {
				if i != from {
					exp = append(exp, x)
				}
			}
			exp = append(exp[:to], append([]*instruction{before[from]}, exp[to:]...)...)
			order = exp
		}
		vBlockOK("after a move", blk, begin, order)
		// address lookup finds each instruction at its current address, nothing elsewhere
		probe := model.Addr(uint64(begin) + uint64(sym.Uint8(fmt.Sprintf("probe%d", m))))
		got, ok := blk.Address(probe)
		is := false
		for _, ins := range blk.seq {
			is = sym.Or(is, ins.Begin() == probe)
		}
		sym.Assert(ok == is, "address lookup succeeds exactly at instruction start addresses")
		if ok {
			sym.Assert(got.Begin() == probe, "address lookup returns the instruction at that address")
		}
	}
}

// VerifC07BlockMoves: block moves only permute the block order; they never
// change an instruction's address, and address lookups keep working.
// vBlockWords (real RV64 words, three blocks of 3, 2 and 4 instructions) is
// built by vBuildCodeWords in the C05 harness file of this package.
func VerifC07BlockMoves() {
	words := []uint32{
		vI(5, 0, 0, 1, 0x13), vR(0, 1, 1, 0, 2, 0x33), vJ(12, 0), // 0x1000.. jal -> 0x1014
		vI(1, 3, 0, 3, 0x13), vI(0, 1, 0, 0, 0x67), // 0x100c, 0x1010 jalr
		vI(1, 1, 0, 1, 0x13), vI(7, 0, 0, 3, 0x13), vS(0, 3, 2, 3, 0x23), vI(2, 2, 0, 2, 0x13), // 0x1014..
	}
	vC05Seq = nil
	var code *Code
	var err error
	sym.NoPanic(func() { code, err = vBuildCode(words) })
	sym.Assert(err == nil && code.Len() == 3, "three blocks")
	if err != nil || code.Len() != 3 {
		return
	}
	type snap struct {
		blk   *block
		begin model.Addr
		addrs []model.Addr
	}
	var order []snap
	for _, b := range code.blocks {
		s := snap{blk: b, begin: b.Begin()}
		for _, ins := range b.seq {
			s.addrs = append(s.addrs, ins.Begin())
		}
		order = append(order, s)
	}
	n := code.Len()
	moves := sym.Param("moves", 1)
	for m := 0; m < moves; m++ {
		from, to := sym.Int(fmt.Sprintf("bfrom%d", m)), sym.Int(fmt.Sprintf("bto%d", m))
		valid := sym.And(sym.And(from >= 0, from < n), sym.And(to >= 0, to < n))
		var merr error
		sym.NoPanic(func() { merr = code.Move(from, to) })
		sym.Assert((merr == nil) == valid, "a block move succeeds exactly when both positions are valid")
		if merr == nil {
			sym.Reach("block-move-accepted")
			var exp []snap
			for i, x := range order {
				if i != from {
					exp = append(exp, x)
				}
			}
			exp = append(exp[:to], append([]snap{order[from]}, exp[to:]...)...)
			order = exp
		} else {
			sym.Reach("block-move-rejected")
		}
		for i, s := range order {
			sym.Assert(code.blocks[i] == s.blk && s.blk.Idx() == i, "block moves only permute the block order (and keep the position numbers current)")
			sym.Assert(s.blk.Begin() == s.begin, "a block move never changes a block's address")
			for j, ins := range s.blk.seq {
				sym.Assert(ins.Begin() == s.addrs[j], "a block move never changes an instruction's address")
			}
		}
		// lookups: every instruction start is found in its block, nothing elsewhere
		probe := model.Addr(uint64(vC05Base) - 4 + uint64(sym.Uint8(fmt.Sprintf("bprobe%d", m))))
		blk, ok := code.Address(probe)
		var want *block
		for _, s := range order {
			if probe >= s.blk.Begin() && probe < s.blk.End() {
				want = s.blk
			}
		}
		sym.Assert(ok == (want != nil), "address lookup finds a block exactly for addresses inside the code")
		if ok && want != nil {
			sym.Assert(blk.block == want, "address lookup returns the block containing the address")
		}
	}
}
