//go:build verif

//verif:dest internal/riscv/zz_verif_c01.go

package riscv

import (
	"strings"

	"mltwist/internal/zzverif/riscvref"
	"mltwist/internal/zzverif/rvenv"
	"mltwist/internal/zzverif/sym"
	"mltwist/pkg/expr"
	"mltwist/pkg/model"
)

// C01: for every instruction type of the real tables, every word matching the
// type's own opcode pattern, every address and every machine state, applying
// the lifted effects (IR reference semantics) changes registers, CSRs, memory
// and pc exactly as the RISC-V reference model does.

func vAllTypes(v Variant) []*instructionType {
	return mergeInstructions([][]*instructionType{instructions[v][extI], instructions[v][ExtM], instructions[v][ExtA]})
}

// vSymState is an arbitrary machine state (x0 = 0 by construction of the ISA).
func vSymState(xlen int, pc sym.BV) riscvref.State {
	st := riscvref.State{XLEN: xlen, X: sym.NewArr("X", xlen), CSR: sym.NewArr("CSR", xlen), M: sym.NewArr("M", 8), PC: pc}
	sym.Assume(st.X.Select(sym.BVConst(0, 64)).Eq(sym.BVConst(0, xlen)))
	return st
}

// vAssumeMatches restricts word to the type's own opcode pattern.
func vAssumeMatches(word uint32, t *instructionType) {
	for i := range t.opcode.Mask {
		b := byte(word >> (8 * uint(i)))
		sym.Assume(b&t.opcode.Mask[i] == t.opcode.Bytes[i])
	}
}

func vWordBytes(word uint32) []byte {
	return []byte{byte(word), byte(word >> 8), byte(word >> 16), byte(word >> 24)}
}

func vAccessBytes(t *instructionType) int {
	n := int(t.loadBytes)
	if int(t.storeBytes) > n {
		n = int(t.storeBytes)
	}
	return n
}

func VerifC01Lift() {
	variant := Variant(sym.Param("variant", 1))
	xlen := 64
	if variant == Variant32 {
		xlen = 32
	}
	types := vAllTypes(variant)
	first, count := sym.Param("first", 0), sym.Param("count", len(types))
	if first+count > len(types) {
		count = len(types) - first
	}
	t := types[first+sym.Choose(count)]
	name := strings.ToLower(t.name)
	riscvref.UseMagnitudeForms = sym.Param("magnitude", 0) == 1

	word := sym.Uint32("word")
	vAssumeMatches(word, t)
	addr := sym.Uint64("addr")
	if xlen == 32 {
		sym.Assume(addr < 1<<32)
	}

	sym.Assert(MemoryKey == rvenv.MemoryKey, "the lifter's memory key")
	ins := newInstruction(model.Addr(addr), vWordBytes(word), t)
	var effs []expr.Effect
	sym.NoPanic(func() { effs = t.validEffects(ins) })
	sym.Reach("prog:" + name)

	pc := sym.BV64(addr).ZExt(xlen)
	pre := vSymState(xlen, pc)
	// outside the claim: accesses that straddle the top of the address space
	if n := vAccessBytes(t); n > 0 {
		d := sym.BV32(word)
		base := pre.X.Select(d.Extract(19, 15).ZExt(64))
		var off sym.BV
		switch {
		case t.instrType.MemOrder(): // AMO / LR / SC: no offset
			off = sym.BVConst(0, xlen)
		case t.storeBytes > 0:
			off = d.Extract(31, 25).Concat(d.Extract(11, 7)).SExt(xlen)
		default:
			off = d.Extract(31, 20).SExt(xlen)
		}
		a := sym.BVIte(d.Extract(19, 15).Eq(sym.BVConst(0, 5)), sym.BVConst(0, xlen), base).Add(off)
		sym.Assume(a.Ule(sym.BVConst(0, xlen).Not().Sub(sym.BVConst(uint64(n-1), xlen))))
	}

	rvenv.SideReset()
	got := rvenv.Apply(effs, pre, sym.BV64(uint64(ins.addr)+instructionLen).ZExt(xlen))
	want, ok := riscvref.Exec(name, sym.BV32(word), pre)
	sym.Assert(ok, "the reference model knows instruction "+name)
	if !ok {
		return
	}

	rvenv.SideAssert()
	px := sym.BVVar("probe.x", 64)
	pcsr := sym.BVVar("probe.csr", 64)
	pm := sym.BVVar("probe.mem", 64)
	inRange := sym.And(px.Ult(sym.BVConst(32, 64)), pcsr.Ult(sym.BVConst(4096, 64)))
	if xlen == 32 {
		inRange = sym.And(inRange, pm.Ult(sym.BVConst(1<<32, 64)))
	}
	sym.Assume(inRange)
	sym.Assert(got.X.Select(px).Eq(want.X.Select(px)), name+": integer registers after the instruction")
	sym.Assert(got.CSR.Select(pcsr).Eq(want.CSR.Select(pcsr)), name+": CSRs after the instruction")
	sym.Assert(got.M.Select(pm).Eq(want.M.Select(pm)), name+": memory after the instruction")
	sym.Assert(got.PC.Eq(want.PC), name+": instruction pointer after the instruction")
	sym.MustFail(got.PC.Eq(pre.PC), "twin: pc never changes")
}

// VerifC01RefLemmas: the magnitude forms of div/rem/remu used by the reference
// when bvmul/bvudiv are abstracted equal the specification forms; proved with
// fully interpreted operators at 8 and 16 bits (the forms are width-generic).
func VerifC01RefLemmas() {
	w := []int{8, 16}[sym.Choose(2)]
	a, b := sym.BVVar("a", w), sym.BVVar("b", w)
	spec, mag := riscvref.Forms(a, b)
	sym.Assert(spec[0].Eq(mag[0]), "reference lemma: signed division, magnitude form = bvsdiv form with RISC-V corner cases")
	if w > 8 {
		// a - (a/b)*b against bvurem/bvsrem does not finish at >= 16 bits in any solver;
		// it is the SMT-LIB definition of bvurem (for b != 0) and is proved at 8 bits.
		return
	}
	sym.Assert(spec[1].Eq(mag[1]), "reference lemma: signed remainder, a - div(a,b)*b = bvsrem form with RISC-V corner cases")
	sym.Assert(spec[2].Eq(mag[2]), "reference lemma: unsigned remainder, a - (a udiv b)*b = bvurem form")
	sym.MustFail(spec[0].Eq(spec[1]), "twin: quotient equals remainder")
}

// VerifC01RefExamples: the reference model reproduces worked examples of the
// ISA manual (division corner table, shifts, compares, jalr bit 0).
func VerifC01RefExamples() {
	type ex struct {
		name       string
		word       uint32
		x1, x2     uint64
		wantX3     uint64
		xlen       int
	}
	r := func(f7, rs2, rs1, f3, rd, op uint32) uint32 { return f7<<25 | rs2<<20 | rs1<<15 | f3<<12 | rd<<7 | op }
	m1 := ^uint64(0)
	min64 := uint64(1) << 63
	exs := []ex{
		{"div", r(1, 2, 1, 4, 3, 0x33), 7, 0, m1, 64},                 // x / 0 = -1
		{"divu", r(1, 2, 1, 5, 3, 0x33), 7, 0, m1, 64},                // x /u 0 = 2^64-1
		{"rem", r(1, 2, 1, 6, 3, 0x33), 7, 0, 7, 64},                  // x % 0 = x
		{"remu", r(1, 2, 1, 7, 3, 0x33), 7, 0, 7, 64},                 //
		{"div", r(1, 2, 1, 4, 3, 0x33), min64, m1, min64, 64},         // overflow
		{"rem", r(1, 2, 1, 6, 3, 0x33), min64, m1, 0, 64},             // overflow
		{"div", r(1, 2, 1, 4, 3, 0x33), uint64(998), ^uint64(78) + 1, ^uint64(12) + 1, 64}, // 998 / -78 = -12
		{"rem", r(1, 2, 1, 6, 3, 0x33), uint64(998), ^uint64(78) + 1, 62, 64},              // 998 % -78 = 62
		{"rem", r(1, 2, 1, 6, 3, 0x33), ^uint64(998) + 1, 78, ^uint64(62) + 1, 64},         // -998 % 78 = -62
		{"mulh", r(1, 2, 1, 1, 3, 0x33), m1, m1, 0, 64},               // (-1 * -1) >> 64 = 0
		{"mulhu", r(1, 2, 1, 3, 3, 0x33), m1, m1, m1 - 1, 64},         // high of (2^64-1)^2
		{"mulhsu", r(1, 2, 1, 2, 3, 0x33), m1, m1, m1, 64},            // -1 * (2^64-1) = -(2^64-1): high = -1
		{"sra", r(0x20, 2, 1, 5, 3, 0x33), min64, 63, m1, 64},         // arithmetic shift fills with sign
		{"srl", r(0, 2, 1, 5, 3, 0x33), min64, 63, 1, 64},
		{"sll", r(0, 2, 1, 1, 3, 0x33), 1, 64 + 3, 8, 64},             // shift amount mod 64
		{"slt", r(0, 2, 1, 2, 3, 0x33), m1, 0, 1, 64},                 // -1 < 0
		{"sltu", r(0, 2, 1, 3, 3, 0x33), m1, 0, 0, 64},
		{"addw", r(0, 2, 1, 0, 3, 0x3b), 0x7fffffff, 1, 0xffffffff80000000, 64}, // 32-bit wrap, sign-extended
		{"srai", 0x40005013 | 1<<15 | 3<<7 | 4<<20, min64, 0, 0xf800000000000000, 64},
		{"addi", 0x00000013 | 1<<15 | 3<<7 | 0xfff<<20, 5, 0, 4, 64},  // addi x3, x1, -1
		{"div", r(1, 2, 1, 4, 3, 0x33), 0x80000000, 0xffffffff, 0x80000000, 32}, // RV32 overflow
	}
	for _, e := range exs {
		X := sym.NewArr("exX", e.xlen)
		X = X.Store(sym.BVConst(1, 64), sym.BVConst(e.x1, e.xlen)).Store(sym.BVConst(2, 64), sym.BVConst(e.x2, e.xlen))
		st := riscvref.State{XLEN: e.xlen, X: X, CSR: sym.NewArr("exC", e.xlen), M: sym.NewArr("exM", 8), PC: sym.BVConst(0x1000, e.xlen)}
		post, ok := riscvref.Exec(e.name, sym.BV32(e.word), st)
		sym.Assert(ok, "example: known instruction "+e.name)
		sym.Assert(post.X.Select(sym.BVConst(3, 64)).Eq(sym.BVConst(e.wantX3, e.xlen)), "reference example: "+e.name)
		sym.Assert(post.PC.Eq(sym.BVConst(0x1004, e.xlen)), "reference example pc: "+e.name)
	}
	// jalr clears bit 0 and links pc+4
	X := sym.NewArr("exX", 64).Store(sym.BVConst(1, 64), sym.BVConst(0x2001, 64))
	st := riscvref.State{XLEN: 64, X: X, CSR: sym.NewArr("exC", 64), M: sym.NewArr("exM", 8), PC: sym.BVConst(0x1000, 64)}
	post, _ := riscvref.Exec("jalr", sym.BV32(0x00000067|1<<15|3<<7|2<<20), st) // jalr x3, 2(x1)
	sym.Assert(post.PC.Eq(sym.BVConst(0x2002, 64)), "reference example: jalr target has bit 0 cleared")
	sym.Assert(post.X.Select(sym.BVConst(3, 64)).Eq(sym.BVConst(0x1004, 64)), "reference example: jalr links pc+4")
}
