//go:build verif

//verif:dest internal/elf/zz_verif_c20.go

package elf

import (
	delf "debug/elf"
	"encoding/binary"
	"fmt"
	"os"

	"mltwist/internal/zzverif/sym"
	"mltwist/pkg/model"
)

// C20: ELF images are loaded faithfully.
//
// Under the engine debug/elf is a stub boundary: the harness supplies the
// parsed representation (*elf.File with symbolic header fields and data).
// Natively (replay of a counterexample) the same specification is written out
// as a real ELF file and read by the real debug/elf.

type vSec struct {
	typ   uint32
	flags uint64
	addr  uint64
	data  []byte
	size  uint64 // header size field (normally len(data))
}

type vProg struct {
	typ    uint32
	vaddr  uint64
	data   []byte // file bytes
	memsz  uint64
}

type vSpec struct {
	typ   uint16
	entry uint64
	secs  []vSec
	progs []vProg
}

const vELFBase = 0x10000

func vSymSpec() vSpec {
	var s vSpec
	s.typ = []uint16{0, 1, 2, 3, 4}[sym.Choose(5)] // NONE, REL, EXEC, DYN, CORE
	s.entry = sym.Uint64("entry")
	if s.typ != 2 && s.typ != 3 {
		return s // rejected by type: the tables do not matter
	}
	ns := sym.Choose(sym.Param("maxsecs", 2) + 1)
	if sym.Param("part", 0) == 1 {
		ns = 0
	}
	for i := 0; i < ns; i++ {
		var c vSec
		c.typ = []uint32{uint32(delf.SHT_PROGBITS), uint32(delf.SHT_NOTE)}[sym.Choose(2)]
		c.flags = []uint64{uint64(delf.SHF_ALLOC | delf.SHF_EXECINSTR), uint64(delf.SHF_ALLOC)}[sym.Choose(2)]
		c.addr = []uint64{0, vELFBase, vELFBase + 2, vELFBase + 4}[sym.Choose(4)]
		c.data = sym.Bytes(fmt.Sprintf("sec%d", i), 2*sym.Choose(3)) // 0, 2 or 4 bytes
		c.size = uint64(len(c.data))
		s.secs = append(s.secs, c)
	}
	np := sym.Choose(sym.Param("maxprogs", 2) + 1)
	if sym.Param("part", 0) == 0 {
		np = 0
	}
	for i := 0; i < np; i++ {
		var p vProg
		p.typ = []uint32{uint32(delf.PT_LOAD), uint32(delf.PT_NOTE)}[sym.Choose(2)]
		p.vaddr = []uint64{vELFBase, vELFBase + 4, vELFBase + 8}[sym.Choose(3)]
		p.data = sym.Bytes(fmt.Sprintf("seg%d", i), 2*sym.Choose(3))
		switch sym.Choose(3) {
		case 0:
			p.memsz = uint64(len(p.data))
		case 1:
			p.memsz = uint64(len(p.data)) + 3 // zero-filled tail
		default:
			p.memsz = uint64(len(p.data)) - 1 // smaller in memory than in the file (invalid unless it wraps to huge for an empty file part)
		}
		s.progs = append(s.progs, p)
	}
	return s
}

// vOpen gives the parser under test the file described by spec.
func vOpen(spec vSpec) (*Parser, error) {
	if !sym.Native() {
		f := &delf.File{}
		f.Type = delf.Type(spec.typ)
		f.Entry = spec.entry
		for i := range spec.secs {
			c := spec.secs[i]
			sec := &delf.Section{SectionHeader: delf.SectionHeader{Name: fmt.Sprintf(".s%d", i), Type: delf.SectionType(c.typ), Flags: delf.SectionFlag(c.flags), Addr: c.addr, Size: c.size}}
			sym.AttachData(sec, c.data, false)
			f.Sections = append(f.Sections, sec)
		}
		for i := range spec.progs {
			p := spec.progs[i]
			pr := &delf.Prog{ProgHeader: delf.ProgHeader{Type: delf.ProgType(p.typ), Vaddr: p.vaddr, Filesz: uint64(len(p.data)), Memsz: p.memsz}}
			sym.AttachData(pr, p.data, false)
			f.Progs = append(f.Progs, pr)
		}
		sym.SetELF(f, false)
		return NewParser("stubbed.elf")
	}
	path, err := vWriteELF(spec)
	if err != nil {
		panic(err)
	}
	defer os.Remove(path)
	return NewParser(path)
}

// vWriteELF writes spec as a little-endian ELF64 file (native replay only).
func vWriteELF(spec vSpec) (string, error) {
	le := binary.LittleEndian
	nsec := len(spec.secs) + 2 // null + user + shstrtab
	phoff := uint64(64)
	dataOff := phoff + 56*uint64(len(spec.progs))
	var blob []byte
	secOff := make([]uint64, len(spec.secs))
	for i, c := range spec.secs {
		secOff[i] = dataOff + uint64(len(blob))
		blob = append(blob, c.data...)
	}
	progOff := make([]uint64, len(spec.progs))
	for i, p := range spec.progs {
		progOff[i] = dataOff + uint64(len(blob))
		blob = append(blob, p.data...)
	}
	// section name table
	strtab := []byte{0}
	nameOff := make([]uint32, len(spec.secs))
	for i := range spec.secs {
		nameOff[i] = uint32(len(strtab))
		strtab = append(strtab, []byte(fmt.Sprintf(".s%d", i))...)
		strtab = append(strtab, 0)
	}
	shstrName := uint32(len(strtab))
	strtab = append(strtab, []byte(".shstrtab")...)
	strtab = append(strtab, 0)
	strOff := dataOff + uint64(len(blob))
	blob = append(blob, strtab...)
	shoff := dataOff + uint64(len(blob))

	h := make([]byte, 64)
	copy(h, []byte{0x7f, 'E', 'L', 'F', 2, 1, 1, 0})
	le.PutUint16(h[16:], spec.typ)
	le.PutUint16(h[18:], 243) // EM_RISCV
	le.PutUint32(h[20:], 1)
	le.PutUint64(h[24:], spec.entry)
	le.PutUint64(h[32:], phoff)
	le.PutUint64(h[40:], shoff)
	le.PutUint16(h[52:], 64)
	le.PutUint16(h[54:], 56)
	le.PutUint16(h[56:], uint16(len(spec.progs)))
	le.PutUint16(h[58:], 64)
	le.PutUint16(h[60:], uint16(nsec))
	le.PutUint16(h[62:], uint16(nsec-1))
	out := append([]byte{}, h...)
	for i, p := range spec.progs {
		ph := make([]byte, 56)
		le.PutUint32(ph[0:], p.typ)
		le.PutUint32(ph[4:], 5)
		le.PutUint64(ph[8:], progOff[i])
		le.PutUint64(ph[16:], p.vaddr)
		le.PutUint64(ph[24:], p.vaddr)
		le.PutUint64(ph[32:], uint64(len(p.data)))
		le.PutUint64(ph[40:], p.memsz)
		le.PutUint64(ph[48:], 1)
		out = append(out, ph...)
	}
	out = append(out, blob...)
	out = append(out, make([]byte, 64)...) // null section
	for i, c := range spec.secs {
		sh := make([]byte, 64)
		le.PutUint32(sh[0:], nameOff[i])
		le.PutUint32(sh[4:], c.typ)
		le.PutUint64(sh[8:], c.flags)
		le.PutUint64(sh[16:], c.addr)
		le.PutUint64(sh[24:], secOff[i])
		le.PutUint64(sh[32:], c.size)
		le.PutUint64(sh[48:], 1)
		out = append(out, sh...)
	}
	sh := make([]byte, 64)
	le.PutUint32(sh[0:], shstrName)
	le.PutUint32(sh[4:], uint32(delf.SHT_STRTAB))
	le.PutUint64(sh[24:], strOff)
	le.PutUint64(sh[32:], uint64(len(strtab)))
	le.PutUint64(sh[48:], 1)
	out = append(out, sh...)
	f, err := os.CreateTemp("", "verif-*.elf")
	if err != nil {
		return "", err
	}
	defer f.Close()
	if _, err := f.Write(out); err != nil {
		return "", err
	}
	return f.Name(), nil
}

type vWant struct {
	begin uint64
	bytes []byte
}

// vSortedNoOverlap sorts the expected blocks; ok=false if two overlap.
func vSortedNoOverlap(bs []vWant) ([]vWant, bool) {
	for i := 1; i < len(bs); i++ {
		for j := i; j > 0 && bs[j].begin < bs[j-1].begin; j-- {
			bs[j], bs[j-1] = bs[j-1], bs[j]
		}
	}
	for i := 1; i < len(bs); i++ {
		if bs[i].begin < bs[i-1].begin+uint64(len(bs[i-1].bytes)) {
			return bs, false
		}
	}
	return bs, true
}

func vCheckMemory(tag string, m *Memory, want []vWant) {
	sym.Assert(len(m.Blocks) == len(want), tag+": exactly the expected blocks")
	if len(m.Blocks) != len(want) {
		return
	}
	for i, b := range m.Blocks {
		ok := uint64(b.Begin()) == want[i].begin && b.Len() == len(want[i].bytes)
		sym.Assert(ok, tag+": blocks are sorted and carry their address and length")
		if !ok {
			return
		}
		same := true
		for j := range want[i].bytes {
			same = sym.And(same, b.Bytes()[j] == want[i].bytes[j])
		}
		sym.Assert(same, tag+": blocks carry the file bytes (then zeros)")
	}
	// address lookup: the bytes from the address to the end of its block, or nothing
	off := sym.Uint8("lookup.off")
	sym.Assume(off < 24)
	a := uint64(vELFBase) - 2 + uint64(off)
	got := m.Address(model.Addr(a))
	var exp []byte
	found := false
	for _, w := range want {
		if a >= w.begin && a < w.begin+uint64(len(w.bytes)) {
			exp, found = w.bytes[a-w.begin:], true
		}
	}
	sym.Assert((got != nil) == found && len(got) == len(exp), tag+": looking up an address returns the rest of its block or nothing")
	if found && len(got) == len(exp) {
		same := true
		for j := range exp {
			same = sym.And(same, got[j] == exp[j])
		}
		sym.Assert(same, tag+": looking up an address returns the bytes from it to the end of its block")
	}
}

func VerifC20Load() {
	spec := vSymSpec()
	var p *Parser
	var err error
	sym.NoPanic(func() { p, err = vOpen(spec) })
	accept := spec.typ == 2 || spec.typ == 3
	sym.Assert((err == nil) == accept, "executable and shared-object files are accepted; relocatable, core and untyped files are rejected")
	if err != nil {
		sym.Reach("rejected-type")
		return
	}
	sym.Assert(uint64(p.Entrypoint()) == spec.entry, "the entry point is the header's entry")

	// code image
	var wantCode []vWant
	for _, c := range spec.secs {
		if c.typ == uint32(delf.SHT_PROGBITS) && len(c.data) > 0 && c.addr != 0 && c.flags&uint64(delf.SHF_EXECINSTR) != 0 {
			wantCode = append(wantCode, vWant{c.addr, c.data})
		}
	}
	wantCode, okCode := vSortedNoOverlap(wantCode)
	var code *Memory
	sym.NoPanic(func() { code, err = p.MachineCode() })
	if len(wantCode) == 0 || !okCode {
		sym.Assert(err != nil, "a file without code sections, or with overlapping code sections, is reported as an error")
		sym.Reach("code-error")
	} else {
		sym.Assert(err == nil, "non-empty, executable, address-bearing PROGBITS sections form the code image")
		if err == nil {
			sym.Reach("code-ok")
			vCheckMemory("code image", code, wantCode)
		}
	}

	// program memory
	var wantMem []vWant
	badSeg := false
	for _, g := range spec.progs {
		if g.typ != uint32(delf.PT_LOAD) {
			continue
		}
		if g.memsz < uint64(len(g.data)) {
			badSeg = true
			continue
		}
		if g.memsz > 1<<30 {
			badSeg = true // absurd in-memory size: must be an error, not a crash
			continue
		}
		bs := make([]byte, g.memsz)
		copy(bs, g.data)
		wantMem = append(wantMem, vWant{g.vaddr, bs})
	}
	wantMem, okMem := vSortedNoOverlap(wantMem)
	var mem *Memory
	sym.NoPanic(func() { mem, err = p.Memory() })
	if badSeg || len(wantMem) == 0 || !okMem {
		sym.Assert(err != nil, "no loadable segment, an invalid segment size or overlapping segments are reported as an error")
		sym.Reach("memory-error")
	} else {
		sym.Assert(err == nil, "loadable segments form the program memory")
		if err == nil {
			sym.Reach("memory-ok")
			vCheckMemory("program memory", mem, wantMem)
		}
	}
	sym.NoPanic(func() { _ = p.Close() })
}

// ---- hook for harnesses of other packages (C26)

// VerifSec / VerifProg describe a section / segment of a file to prepare.
type VerifSec struct {
	Type  uint32
	Flags uint64
	Addr  uint64
	Data  []byte
}

type VerifProg struct {
	Type  uint32
	Vaddr uint64
	Data  []byte
	Memsz uint64
}

// VerifPrepareELF makes the described file available to NewParser under the
// returned path: under the engine as the parsed representation behind the
// debug/elf stub, natively as a real ELF file (cleanup removes it). With
// openFails the path cannot be opened.
func VerifPrepareELF(typ uint16, entry uint64, secs []VerifSec, progs []VerifProg, openFails bool) (path string, cleanup func()) {
	spec := vSpec{typ: typ, entry: entry}
	for _, c := range secs {
		spec.secs = append(spec.secs, vSec{typ: c.Type, flags: c.Flags, addr: c.Addr, data: c.Data, size: uint64(len(c.Data))})
	}
	for _, p := range progs {
		spec.progs = append(spec.progs, vProg{typ: p.Type, vaddr: p.Vaddr, data: p.Data, memsz: p.Memsz})
	}
	if !sym.Native() {
		f := &delf.File{}
		f.Type = delf.Type(spec.typ)
		f.Entry = spec.entry
		for i := range spec.secs {
			c := spec.secs[i]
			sec := &delf.Section{SectionHeader: delf.SectionHeader{Name: fmt.Sprintf(".s%d", i), Type: delf.SectionType(c.typ), Flags: delf.SectionFlag(c.flags), Addr: c.addr, Size: c.size}}
			sym.AttachData(sec, c.data, false)
			f.Sections = append(f.Sections, sec)
		}
		for i := range spec.progs {
			p := spec.progs[i]
			pr := &delf.Prog{ProgHeader: delf.ProgHeader{Type: delf.ProgType(p.typ), Vaddr: p.vaddr, Filesz: uint64(len(p.data)), Memsz: p.memsz}}
			sym.AttachData(pr, p.data, false)
			f.Progs = append(f.Progs, pr)
		}
		sym.SetELF(f, openFails)
		return "stubbed.elf", func() {}
	}
	if openFails {
		return "/nonexistent/verif.elf", func() {}
	}
	p, err := vWriteELF(spec)
	if err != nil {
		panic(err)
	}
	return p, func() { os.Remove(p) }
}
