//go:build verif

//verif:dest internal/zzverif/rvenv/rvenv.go

// Package rvenv evaluates lifted IR effects against a RISC-V machine state
// (riscvref.State): the bridge between the IR reference semantics (irsem) and
// the RISC-V reference model, shared by the C01, C03, C05, C21 and C25 harnesses.
package rvenv

import (
	"mltwist/internal/zzverif/irsem"
	"mltwist/internal/zzverif/riscvref"
	"mltwist/internal/zzverif/sym"
	"mltwist/pkg/expr"
)

// MemoryKey is the key of the one RISC-V address space (riscv.MemoryKey).
const MemoryKey = expr.Key("memory")

// Env evaluates IR register / memory reads against a RISC-V machine state.
type Env struct {
	St riscvref.State
}

// Side conditions on the shape of the lifted effects are accumulated and
// asserted once per path (one solver query instead of one per register key).
var SideMsgs = []string{
	"register keys are x<N>, csr<N> (decimal) or the instruction pointer",
	"x0 is never read through a register load (it reads as the constant zero)",
	"x0 is never written",
	"x register index < 32",
	"CSR instructions use one register per unsigned 12-bit CSR number",
	"memory accesses use the one RISC-V address space",
}
var side []bool

func SideReset() {
	side = make([]bool, len(SideMsgs))
	for i := range side {
		side[i] = true
	}
}

func require(i int, c bool) { side[i] = sym.And(side[i], c) }

func SideAssert() {
	for i, m := range SideMsgs {
		sym.Assert(side[i], m)
	}
}

// ParseKey maps a register key to (file, index). Keys may have symbolic
// digits (they are produced by fmt.Sprintf("x%d", regnum) from a symbolic
// instruction word).
func ParseKey(key expr.Key) (file byte, idx sym.BV) {
	if key == expr.IPKey {
		return 'p', sym.BVConst(0, 64)
	}
	prefix, n, ok := sym.KeyIndex(string(key))
	switch {
	case ok && prefix == "x":
		return 'x', sym.BV64(n)
	case ok && prefix == "csr":
		return 'c', sym.BV64(n)
	}
	require(0, false)
	return '?', sym.BVConst(0, 64)
}

func (e *Env) Reg(key expr.Key) sym.BV {
	file, idx := ParseKey(key)
	switch file {
	case 'x':
		require(1, !idx.Eq(sym.BVConst(0, 64)))
		require(3, idx.Ult(sym.BVConst(32, 64)))
		return e.St.X.Select(idx)
	case 'c':
		require(4, idx.Ult(sym.BVConst(4096, 64)))
		return e.St.CSR.Select(idx)
	case 'p':
		return e.St.PC
	}
	return sym.BVConst(0, e.St.XLEN)
}

func (e *Env) Mem(key expr.Key) sym.Arr {
	require(5, key == MemoryKey)
	return e.St.M
}

// Apply evaluates all effects in the pre-state and applies them in order;
// an instruction-pointer write is a jump, otherwise execution falls through.
func Apply(effs []expr.Effect, pre riscvref.State, fallthroughPC sym.BV) riscvref.State {
	post, _ := ApplyJ(effs, pre, fallthroughPC)
	return post
}

// ApplyJ is Apply that also reports whether the instruction pointer was written.
func ApplyJ(effs []expr.Effect, pre riscvref.State, fallthroughPC sym.BV) (riscvref.State, bool) {
	env := &Env{St: pre}
	type upd struct {
		kind byte // 'x', 'c', 'p', 'm'
		idx  sym.BV
		val  sym.BV
		n    int
	}
	var ups []upd
	for _, ef := range effs {
		switch e := ef.(type) {
		case expr.RegStore:
			v := irsem.Adjust(irsem.Eval(e.Value(), env), e.Width()).ZExt(pre.XLEN)
			file, idx := ParseKey(e.Key())
			ups = append(ups, upd{kind: file, idx: idx, val: v})
		case expr.MemStore:
			require(5, e.Key() == MemoryKey)
			a := irsem.Eval(e.Addr(), env).ZExt(64)
			v := irsem.Adjust(irsem.Eval(e.Value(), env), e.Width())
			ups = append(ups, upd{kind: 'm', idx: a, val: v, n: int(e.Width())})
		default:
			sym.Assert(false, "unknown effect kind")
		}
	}
	post := pre
	post.PC = fallthroughPC
	jumped := false
	for _, u := range ups {
		switch u.kind {
		case 'x':
			require(2, !u.idx.Eq(sym.BVConst(0, 64)))
			require(3, u.idx.Ult(sym.BVConst(32, 64)))
			post.X = post.X.Store(u.idx, u.val)
		case 'c':
			require(4, u.idx.Ult(sym.BVConst(4096, 64)))
			post.CSR = post.CSR.Store(u.idx, u.val)
		case 'p':
			post.PC = u.val
			jumped = true
		case 'm':
			post.M = irsem.StoreBytes(post.M, u.idx, u.val, u.n)
		}
	}
	return post, jumped
}

