//go:build verif

//verif:dest internal/consoleui/internal/lines/zz_verif_c23.go

package lines

import (
	"fmt"

	"mltwist/internal/deps"
	"mltwist/internal/zzverif/rvprog"
	"mltwist/internal/zzverif/sym"
)

// C23: the disassembly listing always reflects the current code.

func vSameListing(tag string, l *Lines, code *deps.Code) {
	fresh := newLines(code)
	sym.Assert(l.Len() == fresh.Len(), tag+": the listing has as many lines as a fresh rendering")
	if l.Len() != fresh.Len() {
		return
	}
	for i := 0; i < l.Len(); i++ {
		a, b := l.Index(i), fresh.Index(i)
		ab, aok := a.Block()
		bb, bok := b.Block()
		ai, aiok := a.Instruction()
		bi, biok := b.Instruction()
		same := a.String() == b.String() && ab == bb && aok == bok && ai == bi && aiok == biok
		sym.Assert(same, fmt.Sprintf("%s: line %d equals the fresh rendering (%q vs %q)", tag, i, a.String(), b.String()))
	}
	// block header lookups agree with a fresh rendering
	for bi := 0; bi < code.Len(); bi++ {
		sym.Assert(l.Line(code.Index(bi), 0) == fresh.Line(code.Index(bi), 0), tag+": block start lines are up to date")
	}
}

func VerifC23Listing() {
	words := rvprog.ThreeBlocks
	switch sym.Param("program", 0) {
	case 1:
		words = rvprog.TwoBlocks
	case 2:
		words = rvprog.FourBlocks
	case 3:
		words = rvprog.Blocks441
	}
	code, err := rvprog.Build(words, rvprog.Base)
	sym.Assert(err == nil, "program builds")
	if err != nil {
		return
	}
	l := newLines(code)
	vSameListing("initially", l, code)
	moves := sym.Param("moves", 1)
	for m := 0; m < moves; m++ {
		from, to := sym.Int(fmt.Sprintf("from%d", m)), sym.Int(fmt.Sprintf("to%d", m))
		sym.Assume(sym.And(sym.And(from >= 0, from < l.Len()), sym.And(to >= 0, to < l.Len())))
		var before []string
		for i := 0; i < l.Len(); i++ {
			before = append(before, l.Index(i).String())
		}
		var err error
		sym.NoPanic(func() { err = l.Move(from, to) })
		if err != nil {
			sym.Reach("move-rejected")
			for i := 0; i < l.Len(); i++ {
				sym.Assert(l.Index(i).String() == before[i], "a rejected move leaves the listing unchanged")
			}
		} else {
			sym.Reach("move-accepted")
			if f, ok := l.Index(to).Instruction(); !ok && f < 0 {
				sym.Reach("block-move-accepted")
			}
		}
		vSameListing(fmt.Sprintf("after move %d", m+1), l, code)
	}
}
