//go:build verif

//verif:dest internal/exprtransform/zz_verif_trees.go

package exprtransform

import (
	"fmt"

	"mltwist/internal/zzverif/irsem"
	"mltwist/internal/zzverif/sym"
	"mltwist/pkg/expr"
	"mltwist/pkg/expr/exprtools"
)

// Expression-tree generator shared by C09, C12, C13 and C28. Shapes are
// enumerated (sym.Choose) or drawn from a seeded PRNG; constants have symbolic
// bytes; registers and memory are symbolic through irsem.MapEnv.

type vGenCfg struct {
	widths  []expr.Width
	ops     []expr.BinaryOp
	keys    []expr.Key
	gadgets bool
	mem     bool
	less    bool
	cnt     int // fresh constant counter
}

var vAllOps = []expr.BinaryOp{expr.Add, expr.Lsh, expr.Rsh, expr.Mul, expr.Div, expr.Nand}

func vCfg(wset int) *vGenCfg {
	c := &vGenCfg{ops: vAllOps, keys: []expr.Key{"r0"}, gadgets: true, mem: true, less: true}
	switch wset {
	case 0:
		c.widths = []expr.Width{1, 2}
	case 1:
		c.widths = []expr.Width{1, 2, 4}
	default:
		c.widths = []expr.Width{1, 2, 3, 8}
	}
	return c
}

func (c *vGenCfg) width() expr.Width { return c.widths[sym.Choose(len(c.widths))] }

func (c *vGenCfg) constLeaf(w expr.Width) expr.Expr {
	c.cnt++
	return expr.NewConst(sym.Bytes(fmt.Sprintf("c%d", c.cnt), int(w)), w)
}

func (c *vGenCfg) leaf() expr.Expr {
	w := c.width()
	if sym.Choose(2) == 0 {
		return c.constLeaf(w)
	}
	return expr.NewRegLoad(c.keys[sym.Choose(len(c.keys))], w)
}

// gen enumerates every tree of the grammar up to the given depth.
func (c *vGenCfg) gen(depth int) expr.Expr {
	if depth == 0 {
		return c.leaf()
	}
	kinds := []string{"leaf", "binary"}
	if c.less {
		kinds = append(kinds, "less")
	}
	if c.mem {
		kinds = append(kinds, "mem")
	}
	if c.gadgets {
		kinds = append(kinds, "gadget")
	}
	switch kinds[sym.Choose(len(kinds))] {
	case "leaf":
		return c.leaf()
	case "binary":
		op := c.ops[sym.Choose(len(c.ops))]
		w := c.width()
		return expr.NewBinary(op, c.gen(depth-1), c.gen(depth-1), w)
	case "less":
		w := c.width()
		return expr.NewLess(c.gen(depth-1), c.gen(depth-1), c.gen(depth-1), c.gen(depth-1), w)
	case "mem":
		w := c.width()
		return expr.NewMemLoad("m", c.gen(depth-1), w)
	default:
		w := c.width()
		return exprtools.NewWidthGadget(c.gen(depth-1), w)
	}
}

// nest enumerates chains of the given depth: at every level any node kind
// (Add, Mul, Less, MemLoad) of any width with the nested node in any child
// position; the other children are register loads.
func (c *vGenCfg) nest(depth int) expr.Expr {
	if depth == 0 {
		return expr.NewRegLoad("r0", c.widths[0])
	}
	w := c.width()
	inner := c.nest(depth - 1)
	side := func(k expr.Key) expr.Expr { return expr.NewRegLoad(k, w) }
	switch sym.Choose(4) {
	case 0, 1:
		op := []expr.BinaryOp{expr.Add, expr.Mul}[sym.Choose(2)]
		if sym.Choose(2) == 0 {
			return expr.NewBinary(op, inner, side("r1"), w)
		}
		return expr.NewBinary(op, side("r1"), inner, w)
	case 2:
		ch := []expr.Expr{side("r1"), side("r0"), side("r1"), side("r0")}
		ch[sym.Choose(4)] = inner
		return expr.NewLess(ch[0], ch[1], ch[2], ch[3], w)
	default:
		return expr.NewMemLoad([]expr.Key{"m", "n"}[sym.Choose(2)], inner, w)
	}
}

// ---- seeded random shapes (concrete PRNG, runs identically in the engine and natively)

type vRand struct{ s uint64 }

func (r *vRand) next(n int) int {
	r.s = r.s*6364136223846793005 + 1442695040888963407
	return int((r.s >> 33) % uint64(n))
}

func (c *vGenCfg) random(r *vRand, depth int) expr.Expr {
	w := c.widths[r.next(len(c.widths))]
	k := r.next(10)
	if depth == 0 || k < 2 {
		if r.next(3) != 0 {
			return c.constLeaf(w)
		}
		return expr.NewRegLoad(c.keys[r.next(len(c.keys))], w)
	}
	switch {
	case k < 5:
		return expr.NewBinary(c.ops[r.next(len(c.ops))], c.random(r, depth-1), c.random(r, depth-1), w)
	case k < 7:
		return expr.NewLess(c.random(r, depth-1), c.random(r, depth-1), c.random(r, depth-1), c.random(r, depth-1), w)
	case k < 8:
		return expr.NewMemLoad("m", c.random(r, depth-1), w)
	default:
		return exprtools.NewWidthGadget(c.random(r, depth-1), w)
	}
}

// vPickTree selects the tree family of the run.
//
//	family 0: every tree of depth <= 1
//	family 1: constant-condition Less whose arms have other widths
//	family 2: width gadget under Binary / Less / MemLoad address, all width orderings
//	family 3: seeded random trees of depth <= 3
//	family 4: every chain of depth "depth" (default 3) of Add/Mul/Less/MemLoad nodes
func vPickTree(c *vGenCfg) expr.Expr {
	switch sym.Param("family", 0) {
	case 0:
		return c.gen(1)
	case 1:
		w := c.width()
		cond1, cond2 := c.constLeaf(c.width()), c.constLeaf(c.width())
		return expr.NewLess(cond1, cond2, c.leaf(), c.leaf(), w)
	case 2:
		arg := c.leaf()
		g := exprtools.NewWidthGadget(arg, c.width())
		if sym.Choose(2) == 1 {
			g = exprtools.NewWidthGadget(g, c.width()) // chain of two
		}
		w := c.width()
		other := c.leaf()
		switch sym.Choose(7) {
		case 0:
			return expr.NewBinary(c.ops[sym.Choose(len(c.ops))], g, other, w)
		case 1:
			return expr.NewBinary(c.ops[sym.Choose(len(c.ops))], other, g, w)
		case 2:
			return expr.NewLess(g, other, expr.NewRegLoad("r1", w), expr.NewRegLoad("r2", w), w)
		case 3:
			return expr.NewLess(other, g, expr.NewRegLoad("r1", w), expr.NewRegLoad("r2", w), w)
		case 4: // gadget in the true arm, the other arm of any width
			return expr.NewLess(other, expr.NewRegLoad("r1", w), g, expr.NewRegLoad("r2", c.width()), w)
		case 5: // gadget in the false arm, the other arm of any width
			return expr.NewLess(other, expr.NewRegLoad("r1", w), expr.NewRegLoad("r2", c.width()), g, w)
		default:
			return expr.NewMemLoad("m", g, w)
		}
	case 4:
		return c.nest(sym.Param("depth", 3))
	default:
		n := sym.Param("shapes", 50)
		i := sym.Choose(n)
		r := &vRand{s: uint64(sym.Param("seed", 0))*1000003 + uint64(i)*7919 + 12345}
		return c.random(r, 1+r.next(3))
	}
}

func vOnlyConst(ex expr.Expr) bool {
	switch e := ex.(type) {
	case expr.Const:
		return true
	case expr.Binary:
		return vOnlyConst(e.Arg1()) && vOnlyConst(e.Arg2())
	case expr.Less:
		return vOnlyConst(e.Arg1()) && vOnlyConst(e.Arg2()) && vOnlyConst(e.ExprTrue()) && vOnlyConst(e.ExprFalse())
	}
	return false
}

func vIsConst(ex expr.Expr) bool { _, ok := ex.(expr.Const); return ok }

// vHasFoldable: some Binary / Less whose operands (condition operands for
// Less) are all constants remains.
func vHasFoldable(ex expr.Expr) bool {
	switch e := ex.(type) {
	case expr.Binary:
		if vIsConst(e.Arg1()) && vIsConst(e.Arg2()) {
			return true
		}
		return vHasFoldable(e.Arg1()) || vHasFoldable(e.Arg2())
	case expr.Less:
		if vIsConst(e.Arg1()) && vIsConst(e.Arg2()) {
			return true
		}
		return vHasFoldable(e.Arg1()) || vHasFoldable(e.Arg2()) || vHasFoldable(e.ExprTrue()) || vHasFoldable(e.ExprFalse())
	case expr.MemLoad:
		return vHasFoldable(e.Addr())
	}
	return false
}

func vHasLess(ex expr.Expr) bool {
	switch e := ex.(type) {
	case expr.Binary:
		return vHasLess(e.Arg1()) || vHasLess(e.Arg2())
	case expr.Less:
		return true
	case expr.MemLoad:
		return vHasLess(e.Addr())
	}
	return false
}

// VerifC09ConstFold: constant folding preserves width and meaning, folds
// constant-only trees to one constant, leaves nothing foldable, is idempotent.
func VerifC09ConstFold() {
	c := vCfg(sym.Param("wset", 0))
	e := vPickTree(c)
	var f expr.Expr
	sym.NoPanic(func() { f = ConstFold(e) })
	sym.Reach("folded")
	env := irsem.NewMapEnv(128)
	sym.Assert(f.Width() == e.Width(), "ConstFold keeps the width")
	if f.Width() == e.Width() {
		sym.Assert(irsem.Eval(f, env).Eq(irsem.Eval(e, env)), "ConstFold keeps the value under every valuation")
	}
	if vOnlyConst(e) {
		sym.Reach("const-only")
		sym.Assert(vIsConst(f), "a constant-only expression folds to a single constant")
	}
	sym.Assert(!vHasFoldable(f), "no operation with all-constant operands remains")
	var ff expr.Expr
	sym.NoPanic(func() { ff = ConstFold(f) })
	sym.Assert(Equal(ff, f), "folding a folded expression changes nothing")
	if !vIsConst(e) {
		sym.MustFail(irsem.Eval(f, env).ZExt(8).Eq(sym.BVConst(0, 8)), "twin: every folded expression is zero")
	}
}

// VerifC12SetWidth: re-widthing yields the value zero-extended / truncated.
func VerifC12SetWidth() {
	c := vCfg(sym.Param("wset", 0))
	e := vPickTree(c)
	w := c.width()
	var r expr.Expr
	sym.NoPanic(func() { r = SetWidth(e, w) })
	env := irsem.NewMapEnv(128)
	sym.Assert(r.Width() == w, "SetWidth gives the requested width")
	if r.Width() == w {
		sym.Assert(irsem.Eval(r, env).Eq(irsem.Adjust(irsem.Eval(e, env), w)), "SetWidth: value zero-extended or truncated")
	}
	sym.Reach("setwidth")
	if w < e.Width() {
		sym.Reach("setwidth-narrow")
	}
}

// VerifC12Purge: removing redundant width adapters never changes width or value.
func VerifC12Purge() {
	c := vCfg(sym.Param("wset", 0))
	e := vPickTree(c)
	var r expr.Expr
	sym.NoPanic(func() { r = PurgeWidthGadgets(e) })
	env := irsem.NewMapEnv(128)
	sym.Assert(r.Width() == e.Width(), "PurgeWidthGadgets keeps the width")
	if r.Width() == e.Width() {
		sym.Assert(irsem.Eval(r, env).Eq(irsem.Eval(e, env)), "PurgeWidthGadgets keeps the value (memory addresses keep their own width)")
	}
	if !Equal(r, e) {
		sym.Reach("purged-something")
	}
}

// VerifC13Possibilities: the alternatives cover every outcome.
func VerifC13Possibilities() {
	c := vCfg(sym.Param("wset", 0))
	e := vPickTree(c)
	var alts []expr.Expr
	sym.NoPanic(func() { alts = Possibilities(e) })
	env := irsem.NewMapEnv(128)
	v := irsem.Eval(e, env)
	covered := false
	for _, a := range alts {
		sym.Assert(a.Width() == e.Width(), "every alternative has the expression's width")
		sym.Assert(!vHasLess(a), "no alternative contains a conditional")
		if a.Width() == e.Width() {
			covered = sym.Or(covered, irsem.Eval(a, env).Eq(v))
		}
	}
	sym.Assert(covered, "the value equals the value of at least one alternative")
	if len(alts) >= 2 {
		sym.Reach("several-alternatives")
		a0 := alts[0]
		if a0.Width() == e.Width() {
			sym.MustFail(irsem.Eval(a0, env).Eq(v), "twin: the first alternative alone always covers")
		}
	}
}

