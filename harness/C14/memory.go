//go:build verif

//verif:dest internal/state/memory/zz_verif_mem.go

package memory

import (
	"fmt"

	"mltwist/internal/state/interval"
	"mltwist/internal/zzverif/irsem"
	"mltwist/internal/zzverif/sym"
	"mltwist/pkg/expr"
	"mltwist/pkg/model"
)

// Reference model shared by C14 (Sparse), C15 (Bytes), C16 (Overlay):
// byte-addressed memory as a list of writes, most recent write wins.

type vWrite struct {
	addr uint64
	n    int
	val  sym.BV // 8*n bits, little-endian bytes of the written value
}

type vRefMem struct{ ws []vWrite }

func (m *vRefMem) write(addr uint64, n int, val sym.BV) {
	m.ws = append(m.ws, vWrite{addr, n, val.ZExt(8 * n)})
}

func (m *vRefMem) written(a uint64) bool {
	r := false
	for _, w := range m.ws {
		r = sym.Or(r, a-w.addr < uint64(w.n))
	}
	return r
}

func (m *vRefMem) byteAt(a uint64) uint8 {
	var v uint8
	for _, w := range m.ws {
		off := sym.BV64(a - w.addr)
		sh := off.Shl(sym.BVConst(3, 64)).ZExt(8*w.n + 64) // byte offset * 8, wide enough not to wrap
		b := w.val.ZExt(8*w.n + 64).LShr(sh).Extract(7, 0).Uint8()
		v = sym.IteU8(a-w.addr < uint64(w.n), b, v)
	}
	return v
}

func vNoWrap(addr uint64, n int) {
	if sym.Param("layout", 1) == 1 {
		return // base <= 2^62 and offsets are small: no wrap by construction
	}
	sym.Assume(addr <= ^uint64(0)-uint64(n))
}

// vAddr returns an address. layout 0: arbitrary symbolic 64-bit address;
// layout 1: symbolic base (<= 2^62) + an enumerated offset in a small window,
// which makes the relative layout concrete on every path.
var vBase uint64
var vBaseSet bool

func vAddr(name string) uint64 {
	if sym.Param("layout", 1) == 0 {
		return sym.Uint64(name)
	}
	if !vBaseSet {
		vBase, vBaseSet = sym.SmallBase("base"), true
	}
	return vBase + uint64(sym.Choose(sym.Param("window", 8)))
}

func vMapMember(m interval.Map[model.Addr], p uint64) bool {
	r := false
	for _, i := range m.Intervals() {
		r = sym.Or(r, sym.And(uint64(i.Begin()) <= p, p < uint64(i.End())))
	}
	return r
}

func vMapNormal(m interval.Map[model.Addr]) bool {
	ok := true
	is := m.Intervals()
	for i := range is {
		ok = sym.And(ok, is[i].Begin() < is[i].End())
		if i > 0 {
			ok = sym.And(ok, is[i-1].End() < is[i].Begin())
		}
	}
	return ok
}

var vWidthSets = [][]expr.Width{{1, 2, 4}, {1, 2, 3, 4, 8}, {1, 2}}

func vWidth() expr.Width {
	ws := vWidthSets[sym.Param("wset", 0)]
	return ws[sym.Choose(len(ws))]
}

// vValue returns an expression to store (constant with symbolic bytes, or a
// register load whose own width may differ from the write width) and its value.
func vValue(i int, w expr.Width, env *irsem.MapEnv, constOnly bool) (expr.Expr, sym.BV) {
	if constOnly || i%2 == 1 || sym.Choose(2) == 0 {
		// a constant of the write width, or (every other index) one byte wider
		vw := w
		if i%2 == 1 && !constOnly {
			vw = w + 1
		}
		c := expr.NewConst(sym.Bytes(fmt.Sprintf("val%d", i), int(vw)), vw)
		return c, irsem.ConstBV(c)
	}
	// a symbolic 8-byte register: truncated (or zero-extended) to the write width
	e := expr.NewRegLoad(expr.Key(fmt.Sprintf("v%d", i)), 8)
	return e, irsem.Eval(e, env)
}

// vCheckRead compares a Load with the reference.
func vCheckRead(tag string, mem Memory, ref *vRefMem, env *irsem.MapEnv, addr uint64, w expr.Width) {
	var e expr.Expr
	var ok bool
	sym.NoPanic(func() { e, ok = mem.Load(model.Addr(addr), w) })
	all := true
	for j := 0; j < int(w); j++ {
		all = sym.And(all, ref.written(addr+uint64(j)))
	}
	sym.Assert(ok == all, tag+": Load succeeds exactly when every byte of the range is available")
	if !ok {
		sym.Reach(tag + "-load-missing")
		return
	}
	sym.Reach(tag + "-load-ok")
	sym.Assert(e.Width() == w, tag+": Load returns an expression of the requested width")
	if e.Width() != w {
		return
	}
	v := irsem.Eval(e, env)
	same := true
	for j := 0; j < int(w); j++ {
		same = sym.And(same, v.Byte(j) == ref.byteAt(addr+uint64(j)))
	}
	sym.Assert(same, tag+": Load yields the most recently written bytes (little-endian)")
}

func vCheckMaps(tag string, mem Memory, ref *vRefMem, addr uint64, w expr.Width) {
	var miss, blocks interval.Map[model.Addr]
	sym.NoPanic(func() { miss = mem.Missing(model.Addr(addr), w); blocks = mem.Blocks() })
	p := sym.Uint64("probe")
	if sym.Param("layout", 1) == 1 {
		off := sym.Uint8("probeoff")
		sym.Assume(off < 64)
		p = vBase + uint64(off) // anywhere in and around the window
	}
	inRange := p-addr < uint64(w)
	sym.Assert(vMapMember(miss, p) == sym.And(inRange, !ref.written(p)), tag+": Missing is exactly the unavailable part of the requested range")
	sym.Assert(vMapNormal(miss), tag+": Missing is in normal form")
	sym.Assert(vMapMember(blocks, p) == ref.written(p), tag+": Blocks is exactly the set of available addresses")
	sym.Assert(vMapNormal(blocks), tag+": Blocks is in normal form")
}

// vQuery picks the address and width of the final query (or a fixed one when
// only the wide query of vCheckWide is wanted).
func vQuery() (uint64, expr.Width) {
	if sym.Param("narrowquery", 1) == 0 && sym.Param("layout", 1) == 1 {
		if !vBaseSet {
			vBase, vBaseSet = sym.SmallBase("base"), true
		}
		return vBase, 1
	}
	addr := vAddr("raddr")
	w := vWidth()
	vNoWrap(addr, int(w))
	return addr, w
}

// vCheckWide repeats the read / Missing / Blocks checks with a range as wide
// as the whole address window (layout 1 only), so that a query can begin in
// one block, span holes and end in another block.
func vCheckWide(tag string, mem Memory, ref *vRefMem, env *irsem.MapEnv) {
	if sym.Param("layout", 1) != 1 || sym.Param("widequery", 0) == 0 {
		return
	}
	addr := vBase + uint64(sym.Choose(2))
	w := expr.Width(sym.Param("window", 8) + 1 - sym.Choose(2))
	vCheckRead(tag+"-wide", mem, ref, env, addr, w)
	if sym.Param("maps", 1) == 1 {
		vCheckMaps(tag+"-wide", mem, ref, addr, w)
	}
}

// ---- C14

func VerifC14Sparse() {
	n := sym.Param("writes", 2)
	m := NewSparse()
	ref := &vRefMem{}
	env := irsem.NewMapEnv(128)
	var early expr.Expr
	var earlyVal sym.BV
	haveEarly := false
	for i := 0; i < n; i++ {
		addr := vAddr(fmt.Sprintf("waddr%d", i))
		w := vWidth()
		vNoWrap(addr, int(w))
		ex, val := vValue(i, w, env, false)
		sym.NoPanic(func() { m.Store(model.Addr(addr), ex, w) })
		ref.write(addr, int(w), irsem.Adjust(val, w))
		if i == 0 && n > 1 {
			// a value handed out before later writes
			if e, ok := m.Load(model.Addr(addr), w); ok {
				early, earlyVal, haveEarly = e, irsem.Eval(e, env), true
			}
		}
	}
	addr, w := vQuery()
	if sym.Param("narrowquery", 1) == 1 {
		vCheckRead("sparse", m, ref, env, addr, w)
		if sym.Param("maps", 1) == 1 {
			vCheckMaps("sparse", m, ref, addr, w)
		}
	}
	vCheckWide("sparse", m, ref, env)
	if haveEarly {
		sym.Assert(irsem.Eval(early, env).Eq(earlyVal), "sparse: a value returned earlier is not altered by later operations")
	}
}

// VerifC14SparseWide: values wider than 32 bytes (the IR allows widths up to
// 255 bytes): a wide write, optionally a later write over its first 32..36
// bytes, then reads that start at byte offset >= 28 of the wide value.
func VerifC14SparseWide() {
	m := NewSparse()
	ref := &vRefMem{}
	env := irsem.NewMapEnv(128)
	base := sym.SmallBase("base")
	W := []expr.Width{33, 40, 64}[sym.Choose(3)]
	c := expr.NewConst(sym.Bytes("wide", int(W)), W)
	sym.NoPanic(func() { m.Store(model.Addr(base), c, W) })
	ref.write(base, int(W), irsem.ConstBV(c))
	if sym.Choose(2) == 1 {
		pw := []expr.Width{32, 33, 36}[sym.Choose(3)]
		if pw < W {
			c2 := expr.NewConst(sym.Bytes("prefix", int(pw)), pw)
			sym.NoPanic(func() { m.Store(model.Addr(base), c2, pw) })
			ref.write(base, int(pw), irsem.ConstBV(c2))
			sym.Reach("wide-prefix-rewritten")
		}
	}
	off := 28 + sym.Choose(int(W)-28)
	w := []expr.Width{1, 2, 4}[sym.Choose(3)]
	vCheckRead("sparse-wide", m, ref, env, base+uint64(off), w)
}

// ---- C15

type vBlock struct {
	begin model.Addr
	bytes []byte
}

func (b vBlock) Begin() model.Addr { return b.begin }
func (b vBlock) Bytes() []byte     { return b.bytes }

func vSymBlocks(name string, n int, ref *vRefMem) ([]ByteBlock, [][]byte) {
	var blocks []ByteBlock
	var copies [][]byte
	for i := 0; i < n; i++ {
		l := 1 + sym.Choose(sym.Param("blocklen", 2))
		begin := vAddr(fmt.Sprintf("%s%d.begin", name, i))
		vNoWrap(begin, l)
		bs := sym.Bytes(fmt.Sprintf("%s%d.bytes", name, i), l)
		cp := make([]byte, l)
		copy(cp, bs)
		blocks = append(blocks, vBlock{model.Addr(begin), bs})
		copies = append(copies, cp)
	}
	return blocks, copies
}

func vBlocksOverlap(blocks []ByteBlock) bool {
	r := false
	for i := range blocks {
		for j := i + 1; j < len(blocks); j++ {
			bi, bj := blocks[i].(vBlock), blocks[j].(vBlock)
			ei := uint64(bi.begin) + uint64(len(bi.bytes))
			ej := uint64(bj.begin) + uint64(len(bj.bytes))
			r = sym.Or(r, sym.And(uint64(bi.begin) < ej, uint64(bj.begin) < ei))
		}
	}
	return r
}

func vSameBytes(a, b []byte) bool {
	ok := len(a) == len(b)
	for i := 0; ok && i < len(a); i++ {
		ok = true
	}
	r := len(a) == len(b)
	if !r {
		return false
	}
	res := true
	for i := range a {
		res = sym.And(res, a[i] == b[i])
	}
	return res
}

func VerifC15Bytes() {
	nb := sym.Param("blocks", 2)
	if sym.Param("exactblocks", 0) == 0 {
		nb = sym.Choose(sym.Param("blocks", 2) + 1)
	}
	ref := &vRefMem{}
	blocks, copies := vSymBlocks("blk", nb, ref)
	var m *Bytes
	var err error
	sym.NoPanic(func() { m, err = NewBytes(blocks) })
	sym.Assert((err != nil) == vBlocksOverlap(blocks), "NewBytes rejects exactly the overlapping initial blocks")
	if err != nil {
		sym.Reach("bytes-rejected")
		return
	}
	for i, b := range blocks {
		vb := b.(vBlock)
		ref.write(uint64(vb.begin), len(vb.bytes), sym.BVBytes(copies[i]))
	}
	env := irsem.NewMapEnv(128)
	nw := sym.Param("writes", 1)
	var consts []expr.Const
	var constCopies [][]byte
	var early expr.Expr
	var earlyVal sym.BV
	haveEarly := false
	for i := 0; i < nw; i++ {
		addr := vAddr(fmt.Sprintf("waddr%d", i))
		w := vWidth()
		vNoWrap(addr, int(w))
		ex, val := vValue(i, w, env, true)
		c := ex.(expr.Const)
		cp := make([]byte, len(c.Bytes()))
		copy(cp, c.Bytes())
		consts, constCopies = append(consts, c), append(constCopies, cp)
		if i == nw-1 {
			// something handed out before the last write
			if e, ok := m.Load(model.Addr(addr), w); ok {
				early, earlyVal, haveEarly = e, irsem.Eval(e, env), true
				sym.Reach("bytes-early-load")
			}
		}
		sym.NoPanic(func() { m.Store(model.Addr(addr), ex, w) })
		ref.write(addr, int(w), irsem.Adjust(val, w))
	}
	addr, w := vQuery()
	if sym.Param("narrowquery", 1) == 1 {
		vCheckRead("bytes", m, ref, env, addr, w)
		if sym.Param("maps", 1) == 1 {
			vCheckMaps("bytes", m, ref, addr, w)
		}
	}
	vCheckWide("bytes", m, ref, env)
	for i, b := range blocks {
		sym.Assert(vSameBytes(b.(vBlock).bytes, copies[i]), "bytes: the caller's byte slices are never modified")
	}
	for i, c := range consts {
		sym.Assert(vSameBytes(c.Bytes(), constCopies[i]), "bytes: a constant given to Store is never modified")
	}
	if haveEarly {
		sym.Assert(irsem.Eval(early, env).Eq(earlyVal), "bytes: a constant returned earlier is not altered by later writes")
	}
}

// ---- C16

func VerifC16Overlay() {
	nb := sym.Choose(sym.Param("blocks", 2) + 1)
	baseRef := &vRefMem{}
	blocks, copies := vSymBlocks("base", nb, baseRef)
	sym.Assume(!vBlocksOverlap(blocks))
	var base *Bytes
	var err error
	sym.NoPanic(func() { base, err = NewBytes(blocks) })
	sym.Assert(err == nil, "overlay: non-overlapping base blocks are accepted")
	if err != nil {
		return
	}
	ref := &vRefMem{}
	for i, b := range blocks {
		vb := b.(vBlock)
		ref.write(uint64(vb.begin), len(vb.bytes), sym.BVBytes(copies[i]))
		baseRef.write(uint64(vb.begin), len(vb.bytes), sym.BVBytes(copies[i]))
	}
	o := NewOverlay(base, NewSparse())
	env := irsem.NewMapEnv(128)
	nw := sym.Param("writes", 1)
	for i := 0; i < nw; i++ {
		addr := vAddr(fmt.Sprintf("waddr%d", i))
		w := vWidth()
		vNoWrap(addr, int(w))
		ex, val := vValue(i, w, env, sym.Param("constonly", 0) == 1)
		sym.NoPanic(func() { o.Store(model.Addr(addr), ex, w) })
		ref.write(addr, int(w), irsem.Adjust(val, w))
	}
	addr, w := vQuery()
	if sym.Param("narrowquery", 1) == 1 {
		vCheckRead("overlay", o, ref, env, addr, w)
		if sym.Param("maps", 1) == 1 {
			vCheckMaps("overlay", o, ref, addr, w)
		}
	}
	vCheckWide("overlay", o, ref, env)
	// the base is never modified
	vCheckRead("overlay-base", base, baseRef, env, addr, w)
	for i, b := range blocks {
		sym.Assert(vSameBytes(b.(vBlock).bytes, copies[i]), "overlay: the base image bytes are never modified")
	}
}
