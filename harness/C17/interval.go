//go:build verif

//verif:dest internal/state/interval/zz_verif_c17.go

package interval

import (
	"fmt"

	"mltwist/internal/zzverif/sym"
)

// C17: interval sets obey set algebra (instantiated at uint64 = model.Addr,
// the instantiation the tool uses).

func vSymIntervals(name string, n int) []Interval[uint64] {
	is := make([]Interval[uint64], n)
	for i := range is {
		b := sym.Uint64(fmt.Sprintf("%s%d.begin", name, i))
		e := sym.Uint64(fmt.Sprintf("%s%d.end", name, i))
		sym.Assume(b < e) // non-empty, as the property states
		is[i] = Interval[uint64]{begin: b, end: e}
	}
	return is
}

func vMember(is []Interval[uint64], p uint64) bool {
	r := false
	for _, i := range is {
		r = sym.Or(r, sym.And(i.begin <= p, p < i.end))
	}
	return r
}

// vNormal: sorted, disjoint, non-adjacent, non-empty.
func vNormal(is []Interval[uint64]) bool {
	ok := true
	for i := range is {
		ok = sym.And(ok, is[i].begin < is[i].end)
		if i > 0 {
			ok = sym.And(ok, is[i-1].end < is[i].begin)
		}
	}
	return ok
}

// vSymMap returns an arbitrary normal-form map of exactly n intervals.
// (Every normal-form list is NewMap's output for itself, and VerifC17NewMap
// shows NewMap only produces normal-form lists.)
func vSymMap(name string, n int) Map[uint64] {
	is := vSymIntervals(name, n)
	sym.Assume(vNormal(is))
	return Map[uint64]{intvs: is}
}

func VerifC17NewMap() {
	n := sym.Choose(sym.Param("maxList", 3) + 1)
	in := vSymIntervals("a", n)
	cp := make([]Interval[uint64], n)
	copy(cp, in)
	var m Map[uint64]
	sym.NoPanic(func() { m = NewMap(in...) })
	sym.Reach(fmt.Sprintf("newmap-result-len-%d", m.Len()))
	p := sym.Uint64("p")
	sym.Assert(vMember(m.intvs, p) == vMember(cp, p), "NewMap: same set of integers as the input list")
	sym.Assert(vNormal(m.intvs), "NewMap: result sorted, disjoint, non-adjacent, non-empty")
	sym.MustFail(!vMember(m.intvs, p), "twin: NewMap result is empty")
}

func vBinary(op string) {
	max := sym.Param("maxMap", 2)
	n1 := sym.Choose(max + 1)
	n2 := sym.Choose(max + 1)
	a := vSymMap("a", n1)
	b := vSymMap("b", n2)
	var r Map[uint64]
	sym.NoPanic(func() {
		switch op {
		case "union":
			r = MapUnion(a, b)
		case "complement":
			r = MapComplement(a, b)
		case "intersect":
			r = MapIntersect(a, b)
		}
	})
	p := sym.Uint64("p")
	ina, inb, inr := vMember(a.intvs, p), vMember(b.intvs, p), vMember(r.intvs, p)
	switch op {
	case "union":
		sym.Assert(inr == sym.Or(ina, inb), "MapUnion: membership is the union")
		sym.MustFail(inr == ina, "twin: union equals first operand")
	case "complement":
		sym.Assert(inr == sym.And(ina, !inb), "MapComplement: membership is the difference")
		sym.MustFail(inr == ina, "twin: difference equals first operand")
	case "intersect":
		sym.Assert(inr == sym.And(ina, inb), "MapIntersect: membership is the intersection")
		sym.MustFail(inr == ina, "twin: intersection equals first operand")
	}
	sym.Assert(vNormal(r.intvs), "Map"+op+": result sorted, disjoint, non-adjacent, non-empty")
	if r.Len() >= 2 {
		sym.Reach(op + "-result-multi")
	}
}

func VerifC17Union()      { vBinary("union") }
func VerifC17Complement() { vBinary("complement") }
func VerifC17Intersect()  { vBinary("intersect") }
