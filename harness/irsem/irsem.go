//go:build verif

//verif:dest internal/zzverif/irsem/irsem.go

// Package irsem is the reference semantics of mltwist's expression IR, written
// from the doc comments of mltwist/pkg/expr (not from the code under test):
// every operation has a width w in bytes; operands are zero-extended or
// truncated to w; Add/Mul are modulo 2^(8w); Lsh/Rsh are logical and give 0
// when the (adjusted) amount is >= 8w; Div is unsigned and gives all ones for a
// zero divisor; Less compares unsigned at width w and selects an arm adjusted
// to w; RegLoad reads the whole register adjusted to w; MemLoad reads w bytes
// little-endian at an address evaluated at its own width.
package irsem

import (
	"fmt"

	"mltwist/internal/zzverif/sym"
	"mltwist/pkg/expr"
)

// Env is a valuation of registers and memories.
type Env interface {
	// Reg returns the whole value of a register (any width).
	Reg(key expr.Key) sym.BV
	// Mem returns the byte array (64-bit index) of a memory space.
	Mem(key expr.Key) sym.Arr
}

// Adjust zero-extends or truncates to w bytes.
func Adjust(v sym.BV, w expr.Width) sym.BV { return v.ZExt(8 * int(w)) }

// ConstBV is the little-endian value of a constant.
func ConstBV(c expr.Const) sym.BV { return sym.BVBytes(c.Bytes()) }

// LoadBytes reads n bytes little-endian at addr (64-bit wrap-around).
func LoadBytes(m sym.Arr, addr sym.BV, n int) sym.BV {
	a := addr.ZExt(64)
	v := m.Select(a)
	for i := 1; i < n; i++ {
		b := m.Select(a.Add(sym.BVConst(uint64(i), 64)))
		v = b.Concat(v)
	}
	return v
}

// StoreBytes writes the n low bytes of v little-endian at addr.
func StoreBytes(m sym.Arr, addr sym.BV, v sym.BV, n int) sym.Arr {
	a := addr.ZExt(64)
	v = v.ZExt(8 * n)
	for i := 0; i < n; i++ {
		m = m.Store(a.Add(sym.BVConst(uint64(i), 64)), v.Extract(8*i+7, 8*i))
	}
	return m
}

// Eval returns the value of e under env as a bit-vector of 8*e.Width() bits.
func Eval(ex expr.Expr, env Env) sym.BV {
	w := ex.Width()
	switch e := ex.(type) {
	case expr.Const:
		return ConstBV(e)
	case expr.Binary:
		a := Adjust(Eval(e.Arg1(), env), w)
		b := Adjust(Eval(e.Arg2(), env), w)
		switch e.Op() {
		case expr.Add:
			return a.Add(b)
		case expr.Lsh:
			return a.Shl(b)
		case expr.Rsh:
			return a.LShr(b)
		case expr.Mul:
			return a.Mul(b)
		case expr.Div:
			return a.UDiv(b) // SMT-LIB bvudiv by zero is all ones, as documented for Div
		case expr.Nand:
			return a.And(b).Not()
		}
		panic(fmt.Sprintf("irsem: unknown binary op %d", e.Op()))
	case expr.Less:
		a := Adjust(Eval(e.Arg1(), env), w)
		b := Adjust(Eval(e.Arg2(), env), w)
		t := Adjust(Eval(e.ExprTrue(), env), w)
		f := Adjust(Eval(e.ExprFalse(), env), w)
		return sym.BVIte(a.Ult(b), t, f)
	case expr.RegLoad:
		return Adjust(env.Reg(e.Key()), w)
	case expr.MemLoad:
		addr := Eval(e.Addr(), env) // at the address's own width
		return LoadBytes(env.Mem(e.Key()), addr, int(w))
	}
	panic(fmt.Sprintf("irsem: unknown expression %T", ex))
}

// MapEnv is a valuation with lazily created symbolic registers (regBits wide)
// and memories; keys are concrete.
type MapEnv struct {
	RegBits int
	Regs    map[expr.Key]sym.BV
	Mems    map[expr.Key]sym.Arr
}

func NewMapEnv(regBits int) *MapEnv {
	return &MapEnv{RegBits: regBits, Regs: map[expr.Key]sym.BV{}, Mems: map[expr.Key]sym.Arr{}}
}

func (m *MapEnv) Reg(key expr.Key) sym.BV {
	if v, ok := m.Regs[key]; ok {
		return v
	}
	v := sym.BVVar("reg:"+string(key), m.RegBits)
	m.Regs[key] = v
	return v
}

func (m *MapEnv) Mem(key expr.Key) sym.Arr {
	if v, ok := m.Mems[key]; ok {
		return v
	}
	v := sym.NewArr("mem:"+string(key), 8)
	m.Mems[key] = v
	return v
}
