//go:build verif

//verif:dest internal/consoleui/zz_verif_c29.go

package consoleui

import (
	"mltwist/internal/zzverif/sym"
)

// C29: help text wrapping keeps every character within the width.

func VerifC29Format() {
	L := sym.Choose(sym.Param("maxlen", 6) + 1)
	s := sym.String("s", L)
	for i := 0; i < L; i++ {
		sym.Assume(sym.And(s[i] < 0x80, s[i] != '\n'))
	}
	if L > 0 {
		sym.Assume(s[0] != ' ') // no leading spaces
	}
	indent := sym.Choose(3)
	chars := 1 + sym.Choose(sym.Param("maxchars", 4))
	var out string
	sym.NoPanic(func() { out = format(s, indent, indent*tabWidth+chars) })
	sym.Reach("formatted")

	// walk the output line by line
	k := 0 // position in s
	i := 0
	lines := 0
	for i < len(out) {
		lines++
		// indentation
		for j := 0; j < indent; j++ {
			sym.Assert(i < len(out) && out[i] == '\t', "every line starts with the indentation")
			i++
		}
		n := 0
		lineStartK := -1
		for i < len(out) && out[i] != '\n' {
			c := out[i]
			// only spaces of the input may be dropped
			for k < len(s) && s[k] != c {
				sym.Assert(s[k] == ' ', "only spaces are dropped between lines")
				k++
			}
			sym.Assert(k < len(s), "the output contains only characters of the input, in order")
			if k >= len(s) {
				return
			}
			if lineStartK < 0 {
				lineStartK = k
			}
			k++
			i++
			n++
		}
		sym.Assert(i < len(out), "every line is terminated")
		i++ // newline
		sym.Assert(n <= chars, "every line fits the remaining width")
		sym.Assert(n > 0, "no empty lines are produced")
		// a line break inside a word is allowed only for a word longer than the width
		if k < len(s) && k > 0 && s[k-1] != ' ' && s[k] != ' ' {
			sym.Reach("word-split")
			// the word containing s[k-1], s[k]
			b := k - 1
			for b > 0 && s[b-1] != ' ' {
				b--
			}
			e := k
			for e < len(s) && s[e] != ' ' {
				e++
			}
			sym.Assert(e-b > chars, "a word is split only when it alone is longer than the remaining width")
		}
	}
	for ; k < len(s); k++ {
		sym.Assert(s[k] == ' ', "all non-space characters of the text appear in the output")
	}
	if L > chars {
		sym.Reach("multi-line")
	}
}
