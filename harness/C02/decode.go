//go:build verif

//verif:dest internal/riscv/zz_verif_c02.go

package riscv

import (
	"strings"

	"mltwist/internal/zzverif/sym"
	"mltwist/pkg/model"
)

// C02: the decoder accepts exactly the supported RISC-V instruction set.
//
// vRefISA is an independent transcription of the opcode listings of the
// RISC-V unprivileged specification (RV32I/RV64I, Zifencei, Zicsr, M, A):
// an instruction is (word & mask) == match. fence requires fm = rs1 = rd = 0,
// fence.i / ecall / ebreak are fully fixed (reserved fields zero).

type vRow struct {
	name        string
	mask, match uint32
	rv32, rv64  bool
	ext         Extension
}

func vR(name string, mask, match uint32, rv32, rv64 bool, ext Extension) vRow {
	return vRow{name, mask, match, rv32, rv64, ext}
}

const (
	vMaskOp  = 0x0000007f
	vMaskF3  = 0x0000707f
	vMaskR   = 0xfe00707f
	vMaskSh6 = 0xfc00707f
	vMaskAmo = 0xf800707f
	vMaskLr  = 0xf9f0707f
	vMaskAll = 0xffffffff
)

var vRefISA = []vRow{
	vR("lui", vMaskOp, 0x37, true, true, extI), vR("auipc", vMaskOp, 0x17, true, true, extI), vR("jal", vMaskOp, 0x6f, true, true, extI),
	vR("jalr", vMaskF3, 0x0067, true, true, extI),
	vR("beq", vMaskF3, 0x0063, true, true, extI), vR("bne", vMaskF3, 0x1063, true, true, extI),
	vR("blt", vMaskF3, 0x4063, true, true, extI), vR("bge", vMaskF3, 0x5063, true, true, extI),
	vR("bltu", vMaskF3, 0x6063, true, true, extI), vR("bgeu", vMaskF3, 0x7063, true, true, extI),
	vR("lb", vMaskF3, 0x0003, true, true, extI), vR("lh", vMaskF3, 0x1003, true, true, extI), vR("lw", vMaskF3, 0x2003, true, true, extI),
	vR("lbu", vMaskF3, 0x4003, true, true, extI), vR("lhu", vMaskF3, 0x5003, true, true, extI),
	vR("lwu", vMaskF3, 0x6003, false, true, extI), vR("ld", vMaskF3, 0x3003, false, true, extI),
	vR("sb", vMaskF3, 0x0023, true, true, extI), vR("sh", vMaskF3, 0x1023, true, true, extI), vR("sw", vMaskF3, 0x2023, true, true, extI),
	vR("sd", vMaskF3, 0x3023, false, true, extI),
	vR("addi", vMaskF3, 0x0013, true, true, extI), vR("slti", vMaskF3, 0x2013, true, true, extI), vR("sltiu", vMaskF3, 0x3013, true, true, extI),
	vR("xori", vMaskF3, 0x4013, true, true, extI), vR("ori", vMaskF3, 0x6013, true, true, extI), vR("andi", vMaskF3, 0x7013, true, true, extI),
	vR("slli", vMaskR, 0x00001013, true, false, extI), vR("srli", vMaskR, 0x00005013, true, false, extI), vR("srai", vMaskR, 0x40005013, true, false, extI),
	vR("slli", vMaskSh6, 0x00001013, false, true, extI), vR("srli", vMaskSh6, 0x00005013, false, true, extI), vR("srai", vMaskSh6, 0x40005013, false, true, extI),
	vR("add", vMaskR, 0x00000033, true, true, extI), vR("sub", vMaskR, 0x40000033, true, true, extI), vR("sll", vMaskR, 0x00001033, true, true, extI),
	vR("slt", vMaskR, 0x00002033, true, true, extI), vR("sltu", vMaskR, 0x00003033, true, true, extI), vR("xor", vMaskR, 0x00004033, true, true, extI),
	vR("srl", vMaskR, 0x00005033, true, true, extI), vR("sra", vMaskR, 0x40005033, true, true, extI), vR("or", vMaskR, 0x00006033, true, true, extI),
	vR("and", vMaskR, 0x00007033, true, true, extI),
	vR("fence", 0xf00fffff, 0x0000000f, true, true, extI), vR("fence.i", vMaskAll, 0x0000100f, true, true, extI),
	vR("ecall", vMaskAll, 0x00000073, true, true, extI), vR("ebreak", vMaskAll, 0x00100073, true, true, extI),
	vR("csrrw", vMaskF3, 0x1073, true, true, extI), vR("csrrs", vMaskF3, 0x2073, true, true, extI), vR("csrrc", vMaskF3, 0x3073, true, true, extI),
	vR("csrrwi", vMaskF3, 0x5073, true, true, extI), vR("csrrsi", vMaskF3, 0x6073, true, true, extI), vR("csrrci", vMaskF3, 0x7073, true, true, extI),
	vR("addiw", vMaskF3, 0x001b, false, true, extI),
	vR("slliw", vMaskR, 0x0000101b, false, true, extI), vR("srliw", vMaskR, 0x0000501b, false, true, extI), vR("sraiw", vMaskR, 0x4000501b, false, true, extI),
	vR("addw", vMaskR, 0x0000003b, false, true, extI), vR("subw", vMaskR, 0x4000003b, false, true, extI), vR("sllw", vMaskR, 0x0000103b, false, true, extI),
	vR("srlw", vMaskR, 0x0000503b, false, true, extI), vR("sraw", vMaskR, 0x4000503b, false, true, extI),
	// M
	vR("mul", vMaskR, 0x02000033, true, true, ExtM), vR("mulh", vMaskR, 0x02001033, true, true, ExtM), vR("mulhsu", vMaskR, 0x02002033, true, true, ExtM),
	vR("mulhu", vMaskR, 0x02003033, true, true, ExtM), vR("div", vMaskR, 0x02004033, true, true, ExtM), vR("divu", vMaskR, 0x02005033, true, true, ExtM),
	vR("rem", vMaskR, 0x02006033, true, true, ExtM), vR("remu", vMaskR, 0x02007033, true, true, ExtM),
	vR("mulw", vMaskR, 0x0200003b, false, true, ExtM), vR("divw", vMaskR, 0x0200403b, false, true, ExtM), vR("divuw", vMaskR, 0x0200503b, false, true, ExtM),
	vR("remw", vMaskR, 0x0200603b, false, true, ExtM), vR("remuw", vMaskR, 0x0200703b, false, true, ExtM),
	// A
	vR("lr.w", vMaskLr, 0x1000202f, true, true, ExtA), vR("sc.w", vMaskAmo, 0x1800202f, true, true, ExtA),
	vR("amoswap.w", vMaskAmo, 0x0800202f, true, true, ExtA), vR("amoadd.w", vMaskAmo, 0x0000202f, true, true, ExtA),
	vR("amoxor.w", vMaskAmo, 0x2000202f, true, true, ExtA), vR("amoand.w", vMaskAmo, 0x6000202f, true, true, ExtA),
	vR("amoor.w", vMaskAmo, 0x4000202f, true, true, ExtA), vR("amomin.w", vMaskAmo, 0x8000202f, true, true, ExtA),
	vR("amomax.w", vMaskAmo, 0xa000202f, true, true, ExtA), vR("amominu.w", vMaskAmo, 0xc000202f, true, true, ExtA),
	vR("amomaxu.w", vMaskAmo, 0xe000202f, true, true, ExtA),
	vR("lr.d", vMaskLr, 0x1000302f, false, true, ExtA), vR("sc.d", vMaskAmo, 0x1800302f, false, true, ExtA),
	vR("amoswap.d", vMaskAmo, 0x0800302f, false, true, ExtA), vR("amoadd.d", vMaskAmo, 0x0000302f, false, true, ExtA),
	vR("amoxor.d", vMaskAmo, 0x2000302f, false, true, ExtA), vR("amoand.d", vMaskAmo, 0x6000302f, false, true, ExtA),
	vR("amoor.d", vMaskAmo, 0x4000302f, false, true, ExtA), vR("amomin.d", vMaskAmo, 0x8000302f, false, true, ExtA),
	vR("amomax.d", vMaskAmo, 0xa000302f, false, true, ExtA), vR("amominu.d", vMaskAmo, 0xc000302f, false, true, ExtA),
	vR("amomaxu.d", vMaskAmo, 0xe000302f, false, true, ExtA),
}

func vRowsFor(v Variant, exts []Extension) []vRow {
	var rows []vRow
	for _, r := range vRefISA {
		if (v == Variant32 && !r.rv32) || (v == Variant64 && !r.rv64) {
			continue
		}
		ok := r.ext == extI
		for _, e := range exts {
			if e == r.ext {
				ok = true
			}
		}
		if ok {
			rows = append(rows, r)
		}
	}
	return rows
}

func vConfig() (Variant, []Extension) {
	v := Variant(sym.Param("variant", 1))
	switch sym.Choose(4) {
	case 0:
		return v, nil
	case 1:
		return v, []Extension{ExtM}
	case 2:
		return v, []Extension{ExtA}
	default:
		return v, []Extension{ExtM, ExtA}
	}
}

func vWordOf(bs []byte) uint32 {
	return uint32(bs[0]) | uint32(bs[1])<<8 | uint32(bs[2])<<16 | uint32(bs[3])<<24
}

// VerifC02RefTable: the reference table itself is unambiguous per configuration.
func VerifC02RefTable() {
	v := Variant(sym.Choose(2))
	rows := vRowsFor(v, []Extension{ExtM, ExtA})
	word := sym.Uint32("word")
	n := 0
	for _, r := range rows {
		n += sym.IteInt(word&r.mask == r.match, 1, 0)
	}
	sym.Assert(n <= 1, "reference table: no word matches two rows of one configuration")
	sym.MustFail(n == 0, "twin: no word matches any row")
}

func VerifC02Decode() {
	v, exts := vConfig()
	rows := vRowsFor(v, exts)
	var p Parser
	sym.NoPanic(func() { p = NewParser(v, exts...) })
	n := sym.Choose(sym.Param("maxlen", 6) + 1)
	bs := sym.Bytes("b", n)
	addr := sym.Uint64("addr")
	var ins model.Instruction
	var err error
	sym.NoPanic(func() { ins, err = p.Parse(model.Addr(addr), bs) })
	if n < 4 {
		sym.Reach("short-input")
		sym.Assert(err != nil, "inputs shorter than four bytes are rejected")
		return
	}
	word := vWordOf(bs)
	if err != nil {
		sym.Reach("rejected")
		none := true
		for _, r := range rows {
			none = sym.And(none, word&r.mask != r.match)
		}
		sym.Assert(none, "a rejected word is not an instruction of this configuration")
	} else {
		det, ok := ins.Details.(instruction)
		sym.Assert(ok, "instruction details")
		name := strings.ToLower(det.instrType.name)
		sym.Reach("accepted:" + name)
		is := false
		for _, r := range rows {
			if r.name == name {
				is = sym.Or(is, word&r.mask == r.match)
			}
		}
		sym.Assert(is, "an accepted word is the instruction the decoder names ("+name+"), and that instruction belongs to this configuration")
		// the fact C01 composes with: the word satisfies the returned type's own pattern
		own := true
		for i := range det.instrType.opcode.Mask {
			own = sym.And(own, bs[i]&det.instrType.opcode.Mask[i] == det.instrType.opcode.Bytes[i])
		}
		sym.Assert(own, "an accepted word matches the returned type's own opcode pattern")
		sym.Assert(ins.ByteLen == instructionLen && det.value == word && det.addr == model.Addr(addr), "decoded instruction carries the word, its address and length 4")
	}
	if n > 4 {
		sym.Reach("trailing-bytes")
		var ins4 model.Instruction
		var err4 error
		sym.NoPanic(func() { ins4, err4 = p.Parse(model.Addr(addr), bs[:4]) })
		sym.Assert((err == nil) == (err4 == nil), "bytes after the first four do not influence acceptance")
		if err == nil && err4 == nil {
			sym.Assert(ins.Details.(instruction).instrType == ins4.Details.(instruction).instrType, "bytes after the first four do not influence the decoded instruction")
		}
	}
}
