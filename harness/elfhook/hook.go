//go:build verif

//verif:dest internal/elf/zz_verif_hook.go

package elf

import "mltwist/pkg/model"

// VerifNewMemory builds a code/program image from (address, bytes) blocks
// through the package's own constructors (hook for harnesses of other packages).
func VerifNewMemory(addrs []model.Addr, data [][]byte) (*Memory, error) {
	bs := make([]Block, len(addrs))
	for i := range addrs {
		bs[i] = newBlock(addrs[i], data[i])
	}
	return newMemory(bs)
}
