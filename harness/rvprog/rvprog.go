//go:build verif

//verif:dest internal/zzverif/rvprog/rvprog.go

// Package rvprog builds small RISC-V programs through mltwist's real
// pipeline (elf image -> parser.Parse with the RISC-V front end ->
// deps.NewCode) for the console-UI harnesses.
package rvprog

import (
	"mltwist/internal/deps"
	"mltwist/internal/elf"
	"mltwist/internal/parser"
	"mltwist/internal/riscv"
	"mltwist/pkg/model"
)

func R(f7, rs2, rs1, f3, rd, op uint32) uint32 { return f7<<25 | rs2<<20 | rs1<<15 | f3<<12 | rd<<7 | op }
func I(imm, rs1, f3, rd, op uint32) uint32     { return (imm&0xfff)<<20 | rs1<<15 | f3<<12 | rd<<7 | op }
func S(imm, rs2, rs1, f3, op uint32) uint32 {
	return (imm>>5&0x7f)<<25 | rs2<<20 | rs1<<15 | f3<<12 | (imm&0x1f)<<7 | op
}
func J(imm, rd uint32) uint32 {
	return (imm>>20&1)<<31 | (imm>>1&0x3ff)<<21 | (imm>>11&1)<<20 | (imm>>12&0xff)<<12 | rd<<7 | 0x6f
}

const Base = model.Addr(0x1000)

// ThreeBlocks is a program whose code model has three blocks of 3, 2 and 4
// instructions (0x1000, 0x100c, 0x1014).
var ThreeBlocks = []uint32{
	I(5, 0, 0, 1, 0x13),  // 0x1000 addi x1,x0,5
	R(0, 1, 1, 0, 2, 0x33), // 0x1004 add x2,x1,x1
	J(12, 0),             // 0x1008 jal x0,+12 -> 0x1014
	I(1, 3, 0, 3, 0x13),  // 0x100c addi x3,x3,1
	I(0, 1, 0, 0, 0x67),  // 0x1010 jalr x0,0(x1)
	I(1, 1, 0, 1, 0x13),  // 0x1014 addi x1,x1,1
	I(7, 0, 0, 3, 0x13),  // 0x1018 addi x3,x0,7
	S(0, 3, 2, 3, 0x23),  // 0x101c sd x3,0(x2)
	I(2, 2, 0, 2, 0x13),  // 0x1020 addi x2,x2,2
}

// TwoBlocks: blocks of 1 and 3 instructions.
var TwoBlocks = []uint32{
	J(8, 0),              // 0x1000 jal x0,+8 -> 0x1008
	I(1, 3, 0, 3, 0x13),  // 0x1004 addi x3,x3,1   (own block: follows a jump, precedes a target)
	I(1, 1, 0, 1, 0x13),  // 0x1008 addi x1,x1,1
	I(7, 0, 0, 3, 0x13),  // 0x100c addi x3,x0,7
}

// FourBlocks: blocks of 2, 2, 1 and 1 instructions (0x1000, 0x1008, 0x1010,
// 0x1014): block moves over a range whose end blocks are equally long while an
// inner block is not.
var FourBlocks = []uint32{
	I(5, 0, 0, 1, 0x13), // 0x1000 addi x1,x0,5
	J(12, 0),            // 0x1004 jal x0,+12 -> 0x1010
	I(1, 3, 0, 3, 0x13), // 0x1008 addi x3,x3,1
	J(8, 0),             // 0x100c jal x0,+8 -> 0x1014
	I(1, 1, 0, 1, 0x13), // 0x1010 addi x1,x1,1
	I(7, 0, 0, 3, 0x13), // 0x1014 addi x3,x0,7
}

// Blocks441: blocks of 4, 4 and 1 instructions (0x1000, 0x1010, 0x1020).
var Blocks441 = []uint32{
	I(1, 0, 0, 1, 0x13),       // 0x1000 addi x1,x0,1
	I(2, 0, 0, 2, 0x13),       // 0x1004 addi x2,x0,2
	I(3, 0, 0, 3, 0x13),       // 0x1008 addi x3,x0,3
	J(20, 0),                  // 0x100c jal x0,+20 -> 0x1020
	I(4, 0, 0, 4, 0x13),       // 0x1010 addi x4,x0,4
	I(5, 0, 0, 5, 0x13),       // 0x1014 addi x5,x0,5
	I(6, 0, 0, 6, 0x13),       // 0x1018 addi x6,x0,6
	J(0x200000-28, 0),         // 0x101c jal x0,-28 -> 0x1000
	I(7, 0, 0, 7, 0x13),       // 0x1020 addi x7,x0,7
}

func Bytes(words []uint32) []byte {
	var bs []byte
	for _, w := range words {
		bs = append(bs, byte(w), byte(w>>8), byte(w>>16), byte(w>>24))
	}
	return bs
}

// Build returns the code model of words placed at Base with the given entry point.
func Build(words []uint32, entry model.Addr) (*deps.Code, error) {
	mem, err := elf.VerifNewMemory([]model.Addr{Base}, [][]byte{Bytes(words)})
	if err != nil {
		return nil, err
	}
	seq, err := parser.Parse(mem, riscv.NewParser(riscv.Variant64, riscv.ExtM, riscv.ExtA))
	if err != nil {
		return nil, err
	}
	return deps.NewCode(entry, seq)
}
