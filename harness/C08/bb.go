//go:build verif

//verif:dest internal/deps/internal/basicblock/zz_verif_c08.go

package basicblock

import (
	"fmt"

	"mltwist/internal/zzverif/sym"
	"mltwist/pkg/expr"
	"mltwist/pkg/model"
)

// C08: basic blocks partition the code exactly where control flow requires.

type vIns struct {
	begin, end model.Addr
	jumps      []expr.Expr
	id         int
}

func (i vIns) Begin() model.Addr   { return i.begin }
func (i vIns) End() model.Addr     { return i.end }
func (i vIns) Jumps() []expr.Expr { return i.jumps }

func VerifC08Parse() {
	// dense family: exactly maxn contiguous 4-byte instructions in address order,
	// every jump present with a constant target, entry at the first instruction
	dense := sym.Param("dense", 0) == 1
	n := sym.Param("maxn", 3)
	if !dense {
		n = sym.Choose(sym.Param("maxn", 3) + 1)
	}
	base := sym.SmallBase("base")
	// top address byte non-zero: ConstUint's scan for the highest non-zero byte
	// then does not fork eight ways per constant (layouts are translation invariant)
	sym.Assume(base >= 1<<56)
	// layout: instruction lengths from {2,4}, gaps from {0,2}
	var ins []vIns
	off := uint64(0)
	var begins, ends []uint64
	for i := 0; i < n; i++ {
		if !dense && i > 0 && sym.Choose(2) == 1 {
			off += 2 // address gap
		}
		l := uint64(4)
		if !dense {
			l = uint64(2 + 2*sym.Choose(2))
		}
		ins = append(ins, vIns{begin: model.Addr(base + off), end: model.Addr(base + off + l), id: i})
		begins, ends = append(begins, off), append(ends, off+l)
		off += l
	}
	total := off
	// candidate offsets for constant targets / the entry point: every
	// instruction start, an offset inside the first 4-byte instruction, the end
	// of the code and one slot behind it
	cands := append([]uint64(nil), begins...)
	for i := range begins {
		if ends[i]-begins[i] == 4 {
			cands = append(cands, begins[i]+2)
			break
		}
	}
	cands = append(cands, total, total+2)
	// jump targets: up to maxjumps jumps, each on a chosen instruction, each
	// non-constant or a constant candidate offset
	var targets []uint64
	if n > 0 {
		for j := 0; j < sym.Param("maxjumps", 1); j++ {
			if !dense && sym.Choose(2) == 0 {
				continue
			}
			i := sym.Choose(n)
			if !dense && sym.Choose(2) == 0 {
				ins[i].jumps = append(ins[i].jumps, expr.NewRegLoad(expr.Key(fmt.Sprintf("t%d", i)), 8))
				continue
			}
			t := cands[sym.Choose(len(cands))]
			targets = append(targets, t)
			ins[i].jumps = append(ins[i].jumps, expr.NewConstUint(base+t, 8))
		}
	}
	entryOff := uint64(0)
	if !dense {
		entryOff = cands[sym.Choose(len(cands))]
	}
	entry := model.Addr(base + entryOff)

	// input order: as is, reversed or rotated
	in := make([]vIns, n)
	copy(in, ins)
	perm := 0
	if !dense {
		perm = sym.Choose(3)
	}
	switch perm {
	case 1:
		for i, j := 0, n-1; i < j; i, j = i+1, j-1 {
			in[i], in[j] = in[j], in[i]
		}
	case 2:
		if n > 1 {
			in = append(in[1:], in[0])
		}
	}
	var got [][]vIns
	var err error
	sym.NoPanic(func() { got, err = Parse(entry, in) })

	isStart := func(o uint64) bool {
		for _, b := range begins {
			if b == o {
				return true
			}
		}
		return false
	}
	wantErr := !isStart(entryOff)
	for _, t := range targets {
		if !isStart(t) {
			wantErr = true
		}
	}
	sym.Assert((err != nil) == wantErr, "building fails exactly when the entry point or a constant jump target is not the start of an instruction")
	if err != nil {
		sym.Reach("failed")
		return
	}
	if wantErr {
		return
	}
	sym.Reach("partitioned")
	// reference partition: cut after i iff it has a real jump target, or a gap
	// follows, or the next instruction is a constant target or the entry point
	var want [][]int
	cur := []int{}
	for i := 0; i < n; i++ {
		cur = append(cur, i)
		cut := i == n-1 || len(ins[i].jumps) > 0 || ends[i] != begins[i+1] || begins[i+1] == entryOff
		if !cut {
			for _, t := range targets {
				if t == begins[i+1] {
					cut = true
				}
			}
		}
		if cut {
			want = append(want, cur)
			cur = []int{}
		}
	}
	ok := len(got) == len(want)
	for i := 0; ok && i < len(got); i++ {
		ok = len(got[i]) == len(want[i])
		for j := 0; ok && j < len(got[i]); j++ {
			ok = got[i][j].id == want[i][j]
		}
	}
	sym.Assert(ok, "the instructions are partitioned in address order into blocks ending exactly after real jumps, at gaps, and before constant targets and the entry point")
	if len(want) >= 3 {
		sym.Reach("three-blocks")
	}
}
