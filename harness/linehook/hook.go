//go:build verif

//verif:dest internal/consoleui/internal/linereader/zz_verif_hook.go

package linereader

import (
	"io"

	"mltwist/internal/zzverif/sym"
)

// Native replay only: the package's reader is fed from the lines scripted with
// sym.SetInputLines instead of os.Stdin. (The engine does not run init; it
// intercepts ReadLine and returns the scripted lines directly.)
type verifReader struct{ rest []byte }

func (v *verifReader) Read(p []byte) (int, error) {
	if len(v.rest) == 0 {
		l, ok := sym.NextInputLine()
		if !ok {
			return 0, io.EOF
		}
		v.rest = append([]byte(l), '\n')
	}
	n := copy(p, v.rest)
	v.rest = v.rest[n:]
	return n, nil
}

func init() { r = newLineReader(&verifReader{}) }
