//go:build verif

//verif:dest internal/state/zz_verif_c18.go

package state

import (
	"fmt"

	"mltwist/internal/zzverif/irsem"
	"mltwist/internal/zzverif/sym"
	"mltwist/pkg/expr"
	"mltwist/pkg/expr/exprtools"
	"mltwist/pkg/model"
)

// C18: register state holds whole-register values.

var vC18Widths = []expr.Width{1, 2, 4, 8}

func vC18Value(i int, env *irsem.MapEnv) (expr.Expr, sym.BV) {
	vw := vC18Widths[sym.Choose(len(vC18Widths))]
	switch sym.Choose(3) {
	case 0:
		c := expr.NewConst(sym.Bytes(fmt.Sprintf("c%d", i), int(vw)), vw)
		return c, irsem.ConstBV(c)
	case 1:
		e := expr.NewRegLoad(expr.Key(fmt.Sprintf("src%d", i)), vw)
		return e, irsem.Eval(e, env)
	default:
		e := expr.NewBinary(expr.Add, expr.NewRegLoad(expr.Key(fmt.Sprintf("src%d", i)), vw), expr.One, vw)
		return e, irsem.Eval(e, env)
	}
}

func VerifC18Regs() {
	n := sym.Param("stores", 2)
	keys := []expr.Key{"r0", "r1"}
	env := irsem.NewMapEnv(128)
	m := NewRegMap()
	type last struct {
		set bool
		val sym.BV
	}
	ref := map[expr.Key]*last{"r0": {}, "r1": {}}
	for i := 0; i < n; i++ {
		k := keys[sym.Choose(2)]
		w := vC18Widths[sym.Choose(len(vC18Widths))]
		e, v := vC18Value(i, env)
		sym.NoPanic(func() { m.Store(k, e, w) })
		ref[k].set, ref[k].val = true, irsem.Adjust(v, w) // first adjusted to its write width
	}
	k := keys[sym.Choose(2)]
	w := vC18Widths[sym.Choose(len(vC18Widths))]
	var e expr.Expr
	var ok bool
	sym.NoPanic(func() { e, ok = m.Load(k, w) })
	sym.Assert(ok == ref[k].set, "an unwritten register reads as absent, a written one as present")
	if !ok {
		sym.Reach("absent")
		return
	}
	sym.Reach("present")
	sym.Assert(e.Width() == w, "a register read has the requested width")
	if e.Width() == w {
		sym.Assert(irsem.Eval(e, env).Eq(irsem.Adjust(ref[k].val, w)), "a register read yields the last value written, adjusted to its write width and then to the read width")
		sym.MustFail(irsem.Eval(e, env).Eq(sym.BVConst(0, 8*int(w))), "twin: registers always read zero")
	}
}

// VerifC18Apply: State.Apply stores registers, stores memory at constant
// addresses, and refuses a memory write whose address does not reduce to a
// constant without changing the state.
func VerifC18Apply() {
	env := irsem.NewMapEnv(128)
	s := New()
	// some prior state
	s.Regs.Store("r0", expr.NewConst(sym.Bytes("init", 4), 4), 4)
	s.Mems.Store("m", 0x100, expr.NewConst(sym.Bytes("minit", 2), 2), 2)
	w := vC18Widths[sym.Choose(len(vC18Widths))]
	val, _ := vC18Value(0, env)
	var addr expr.Expr
	constAddr := true
	lowByte := sym.Uint8("addr.low") // address 0x20xx, away from the existing block
	addrBytes := []byte{lowByte, 0x20, 0, 0, 0, 0, 0, 0}
	switch sym.Choose(3) {
	case 0:
		addr = expr.NewConst(addrBytes, 8)
	case 1: // reduces to a constant only by folding: (addr + k) - k
		k := expr.NewConst(sym.Bytes("k", 8), 8)
		addr = exprtools.Sub(expr.NewBinary(expr.Add, expr.NewConst(addrBytes, 8), k, 8), k, 8)
	default:
		addr = expr.NewBinary(expr.Add, expr.NewRegLoad("base", 8), expr.NewConst(addrBytes, 8), 8)
		constAddr = false
	}
	regsBefore, memsBefore := s.Regs.Len(), len(s.Mems)
	blocksBefore := s.Mems.Blocks("m")
	var applied bool
	sym.NoPanic(func() { applied = s.Apply(expr.NewMemStore(val, "m", addr, w)) })
	sym.Assert(applied == constAddr, "a memory write is applied exactly when its address reduces to a constant")
	if !applied {
		sym.Reach("refused")
		sym.Assert(s.Regs.Len() == regsBefore && len(s.Mems) == memsBefore && s.Mems.Blocks("m").Equal(blocksBefore), "a refused memory write leaves registers and memories untouched")
		e, ok := s.Mems.Load("m", 0x100, 2)
		sym.Assert(ok && e.Width() == 2, "a refused memory write leaves memory contents readable as before")
		return
	}
	sym.Reach("applied")
	a := irsem.Eval(addr, env).Uint64()
	got, ok := s.Mems.Load("m", modelAddr(a), w)
	sym.Assert(ok, "an applied memory write is readable at its address")
	if ok && got.Width() == w {
		sym.Assert(irsem.Eval(got, env).Eq(irsem.Adjust(irsem.Eval(val, env), w)), "an applied memory write stores the value adjusted to the write width")
	}
	var r bool
	sym.NoPanic(func() { r = s.Apply(expr.NewRegStore(val, "r9", w)) })
	sym.Assert(r, "a register store is always applied")
	e, ok := s.Regs.Load("r9", w)
	sym.Assert(ok && e.Width() == w && irsem.Eval(e, env).Eq(irsem.Adjust(irsem.Eval(val, env), w)), "an applied register store is readable")
}

func modelAddr(a uint64) model.Addr { return model.Addr(a) }
