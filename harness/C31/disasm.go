//go:build verif

//verif:dest internal/consoleui/disassemble/zz_verif_disasm.go

package disassemble

import (
	"fmt"
	"strings"

	"mltwist/internal/consoleui"
	"mltwist/internal/deps"
	"mltwist/internal/zzverif/rvprog"
	"mltwist/internal/zzverif/sym"
	"mltwist/pkg/model"
)

// C22 (b) and C31 for the disassembler mode: every action, called with any
// arguments its parsers admit, from any cursor position, never crashes; the
// navigation commands land on the right line or fail without moving.

func vMode(entry model.Addr) (*mode, []consoleui.Command) {
	return vModeOf(rvprog.ThreeBlocks, entry)
}

func vModeOf(words []uint32, entry model.Addr) (*mode, []consoleui.Command) {
	code, err := rvprog.Build(words, entry)
	sym.Assert(err == nil, "program builds")
	if err != nil {
		return nil, nil
	}
	m := New(code, func(p *deps.Code, ip model.Addr) (consoleui.Mode, error) {
		return nil, fmt.Errorf("emulation is not part of this harness")
	}).(*mode)
	return m, commands(m)
}

func vCmd(cmds []consoleui.Command, key string) consoleui.Command {
	for _, c := range cmds {
		for _, k := range c.Keys {
			if k == key {
				return c
			}
		}
	}
	panic("no command " + key)
}

func vSetCursor(m *mode) int {
	// every cursor position, enumerated (a symbolic position makes every line
	// lookup fork through the solver; the set of positions is the same)
	cur := sym.Choose(m.view.Lines.Len())
	if err := m.view.Cursor.Set(cur); err != nil {
		sym.Assert(false, "cursor positions inside the listing are valid")
	}
	return m.view.Cursor.Value()
}

// VerifC22DisasmActions: no action crashes.
func VerifC22DisasmActions() {
	words, entry := rvprog.ThreeBlocks, model.Addr(rvprog.Base+0x14)
	switch sym.Choose(3) {
	case 1:
		words = rvprog.FourBlocks // 2,2,1,1: block moves over ranges with equal end blocks
	case 2:
		words, entry = rvprog.Blocks441, rvprog.Base // 4,4,1
	}
	m, cmds := vModeOf(words, entry)
	if m == nil {
		return
	}
	vSetCursor(m)
	names := []string{"down", "up", "move", "bounds", "goto", "entrypoint", "alllines", "emulate", "find"}
	name := names[sym.Choose(len(names))]
	cmd := vCmd(cmds, name)
	var args []interface{}
	for i := range cmd.Args {
		a := sym.Int(fmt.Sprintf("arg%d", i))
		sym.Assume(a >= 0) // ParseNum(0, MaxInt)
		args = append(args, a)
	}
	if name == "find" {
		args = []interface{}{"x"}
	}
	var err error
	sym.NoPanic(func() { err = cmd.Action(nil, args...) })
	sym.Reach("action:" + name)
	_ = err
}

// VerifC31Navigation: down/up/goto/entrypoint/find semantics.
func VerifC31Navigation() {
	entries := []model.Addr{rvprog.Base, rvprog.Base + 0x14}
	entry := entries[1]
	if sym.Param("history", 0) == 0 {
		entry = entries[sym.Choose(2)]
	}
	m, cmds := vMode(entry)
	if m == nil {
		return
	}
	if sym.Param("history", 0) == 1 {
		// a history before the command under test: the entry point was visited
		// once, then one (accepted or rejected) instruction or block move
		sym.NoPanic(func() { _ = vCmd(cmds, "entrypoint").Action(nil) })
		// block header lines and the first instruction line of every block
		var cand []int
		for i := 0; i < m.view.Lines.Len(); i++ {
			l := m.view.Lines.Index(i)
			_, isBlock := l.Block()
			ii, isIns := l.Instruction()
			if isBlock && (!isIns || ii == 0) {
				cand = append(cand, i)
			}
		}
		from, to := cand[sym.Choose(len(cand))], cand[sym.Choose(len(cand))]
		var merr error
		sym.NoPanic(func() { merr = vCmd(cmds, "move").Action(nil, from, to) })
		if merr == nil {
			sym.Reach("history-move-accepted")
		}
	}
	n := m.view.Lines.Len()
	cur := vSetCursor(m)
	names := []string{"down", "up", "goto", "entrypoint", "find"}
	if sym.Param("history", 0) == 1 {
		names = []string{"entrypoint", "find"}
	}
	name := names[sym.Choose(len(names))]
	cmd := vCmd(cmds, name)
	arg := sym.Int("arg")
	sym.Assume(arg >= 0)
	var err error
	switch name {
	case "down", "up", "goto":
		sym.NoPanic(func() { err = cmd.Action(nil, arg) })
		want := arg
		if name == "down" {
			want = cur + arg
		} else if name == "up" {
			want = cur - arg
		}
		if err != nil {
			sym.Reach(name + "-fails")
			sym.Assert(m.view.Cursor.Value() == cur, name+": a failed command leaves the cursor unchanged")
		} else {
			sym.Reach(name + "-moves")
			sym.Assert(m.view.Cursor.Value() == want, name+": the cursor lands on the requested line")
		}
		// it must succeed exactly when the target line exists (no overflow games: arg < 2^62)
		if arg < 1<<62 {
			sym.Assert((err == nil) == sym.And(want >= 0, want < n), name+": succeeds exactly when the target line exists")
		}
	case "entrypoint":
		sym.NoPanic(func() { err = cmd.Action(nil) })
		sym.Assert(err == nil, "entrypoint: the entry instruction exists")
		l := m.view.Lines.Index(m.view.Cursor.Value())
		bi, bok := l.Block()
		ii, iok := l.Instruction()
		ok := bok && iok
		if ok {
			ins := m.code.Index(bi).Index(ii)
			ok = ins.Begin() == entry
		}
		sym.Assert(ok, "entrypoint: the cursor is on the entry instruction's line")
	case "find":
		// literal patterns: POSIX matching is substring containment
		pats := []string{"addi x3", "jalr", "Block 2", "sd x3", "no such text"}
		if sym.Param("history", 0) == 1 {
			pats = pats[2:4]
		}
		pat := pats[sym.Choose(len(pats))]
		sym.NoPanic(func() { err = cmd.Action(nil, pat) })
		want := -1
		for k := 1; k < n; k++ {
			i := (cur + k) % n
			if strings.Contains(m.view.Lines.Index(i).String(), pat) {
				want = i
				break
			}
		}
		got := m.view.Cursor.Value()
		if want < 0 {
			sym.Reach("find-no-match")
			sym.Assert(got == cur, "find: without a matching line the cursor stays")
		} else {
			sym.Reach("find-match")
			sym.Assert(err == nil && got == want, fmt.Sprintf("find: the cursor lands on the first matching line after the cursor, cyclically (want %d, got %d)", want, got))
		}
	}
}
