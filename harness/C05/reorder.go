//go:build verif

//verif:dest internal/deps/zz_verif_c05.go

package deps

import (
	"fmt"

	"mltwist/internal/elf"
	"mltwist/internal/parser"
	"mltwist/internal/riscv"
	"mltwist/internal/zzverif/riscvref"
	"mltwist/internal/zzverif/rvenv"
	"mltwist/internal/zzverif/sym"
	"mltwist/pkg/model"
)

// C05: accepted instruction reorderings preserve block behaviour.
//
// Blocks are built from real RV64IMA instruction words through the real
// pipeline (riscv parser -> parser.Parse -> deps.NewCode). A block is executed
// with the emulator's rule (effects evaluated in the pre-state, an instruction
// pointer write is a jump, otherwise fall through to ins.End() at the
// instruction's *current* address) over an arbitrary machine state.

func vR(f7, rs2, rs1, f3, rd, op uint32) uint32 { return f7<<25 | rs2<<20 | rs1<<15 | f3<<12 | rd<<7 | op }
func vI(imm, rs1, f3, rd, op uint32) uint32     { return (imm&0xfff)<<20 | rs1<<15 | f3<<12 | rd<<7 | op }
func vS(imm, rs2, rs1, f3, op uint32) uint32 {
	return (imm>>5&0x7f)<<25 | rs2<<20 | rs1<<15 | f3<<12 | (imm&0x1f)<<7 | op
}
func vB(imm, rs2, rs1, f3 uint32) uint32 {
	return (imm>>12&1)<<31 | (imm>>5&0x3f)<<25 | rs2<<20 | rs1<<15 | f3<<12 | (imm>>1&0xf)<<8 | (imm>>11&1)<<7 | 0x63
}
func vJ(imm, rd uint32) uint32 {
	return (imm>>20&1)<<31 | (imm>>1&0x3ff)<<21 | (imm>>11&1)<<20 | (imm>>12&0xff)<<12 | rd<<7 | 0x6f
}

type vTemplate struct {
	name string
	word uint32
}

// register-only templates first (used by the n=4 family)
var vC05Pool = []vTemplate{
	{"addi x1,x0,5", vI(5, 0, 0, 1, 0x13)},
	{"add x2,x1,x1", vR(0, 1, 1, 0, 2, 0x33)},
	{"addi x1,x1,1", vI(1, 1, 0, 1, 0x13)},
	{"add x3,x1,x2", vR(0, 2, 1, 0, 3, 0x33)},
	{"addi x3,x3,1", vI(1, 3, 0, 3, 0x13)},
	{"addi x1,x0,9", vI(9, 0, 0, 1, 0x13)},
	{"lw x1,0(x2)", vI(0, 2, 2, 1, 0x03)},
	{"sw x1,4(x2)", vS(4, 1, 2, 2, 0x23)},
	{"sd x3,0(x2)", vS(0, 3, 2, 3, 0x23)},
	{"amoadd.w x1,x3,(x2)", vR(0, 3, 2, 2, 1, 0x2f)},
	{"fence", 0x0ff0000f},
	{"csrrw x1,0x300,x2", vI(0x300, 2, 1, 1, 0x73)},
	{"ecall", 0x00000073},
	{"auipc x3,1", 1<<12 | 3<<7 | 0x17},
	{"jal x1,+4", vJ(4, 1)},
	{"mul x3,x1,x2", vR(1, 2, 1, 0, 3, 0x33)},
}

var vC05Terminators = []vTemplate{
	{"beq x1,x2,-8", vB(0x1ff8, 2, 1, 0)},
	{"jal x0,-8", vJ(0x1ffff8, 0)},
	{"jalr x0,0(x1)", vI(0, 1, 0, 0, 0x67)},
}

const vC05Base = model.Addr(0x1000)

func vParseWords(words []uint32) ([]parser.Instruction, error) {
	bs := make([]byte, 0, 4*len(words))
	for _, w := range words {
		bs = append(bs, byte(w), byte(w>>8), byte(w>>16), byte(w>>24))
	}
	mem, err := elf.VerifNewMemory([]model.Addr{vC05Base}, [][]byte{bs})
	if err != nil {
		return nil, err
	}
	return parser.Parse(mem, riscv.NewParser(riscv.Variant64, riscv.ExtM, riscv.ExtA))
}

var vC05Seq []parser.Instruction

// vBuildCode builds a fresh code model from the instructions parsed once per path.
func vBuildCode(words []uint32) (*Code, error) {
	if vC05Seq == nil {
		seq, err := vParseWords(words)
		if err != nil {
			return nil, err
		}
		vC05Seq = seq
	}
	seq := make([]parser.Instruction, len(vC05Seq))
	copy(seq, vC05Seq)
	return NewCode(vC05Base, seq)
}

// vRun executes block b of code c from pre: follows the instruction pointer
// like the emulator for at most steps instructions, stopping when control
// leaves the block or the target is not a constant.
func vRun(blk *block, pre riscvref.State, steps int) (riscvref.State, bool) {
	st := pre
	ip := blk.Begin()
	for s := 0; s < steps; s++ {
		ins, ok := Block{blk}.Address(ip)
		if !ok {
			return st, false // the emulator would fail here
		}
		st.PC = sym.BVConst(uint64(ip), 64)
		post, jumped := rvenv.ApplyJ(ins.Effects(), st, sym.BVConst(uint64(ins.End()), 64))
		st = post
		if jumped {
			// an instruction pointer write is a control transfer: one pass
			// through the block ends here (also for a jump back into the block)
			return st, true
		}
		ip = ins.End()
		if ip == blk.End() {
			st.PC = sym.BVConst(uint64(ip), 64)
			return st, true
		}
	}
	return st, true
}

func vSameState(tag string, a, b riscvref.State) {
	px, pc, pm := sym.BVVar("probe.x", 64), sym.BVVar("probe.csr", 64), sym.BVVar("probe.mem", 64)
	sym.Assume(sym.And(px.Ult(sym.BVConst(32, 64)), pc.Ult(sym.BVConst(4096, 64))))
	sym.Assert(a.X.Select(px).Eq(b.X.Select(px)), tag+": same integer registers")
	sym.Assert(a.CSR.Select(pc).Eq(b.CSR.Select(pc)), tag+": same CSRs")
	sym.Assert(a.M.Select(pm).Eq(b.M.Select(pm)), tag+": same memory")
	sym.Assert(a.PC.Eq(b.PC), tag+": same control transfer")
}

func VerifC05Reorder() {
	n := sym.Param("n", 3)
	poolSize := sym.Param("pool", len(vC05Pool))
	var words []uint32
	var names []string
	for i := 0; i < n; i++ {
		var t vTemplate
		if i == n-1 && sym.Param("terminators", 1) == 1 {
			k := sym.Choose(poolSize + len(vC05Terminators))
			if k < poolSize {
				t = vC05Pool[k]
			} else {
				t = vC05Terminators[k-poolSize]
			}
		} else {
			t = vC05Pool[sym.Choose(poolSize)]
		}
		words, names = append(words, t.word), append(names, t.name)
	}
	vC05Seq = nil
	var orig *Code
	var err error
	sym.NoPanic(func() { orig, err = vBuildCode(words) })
	sym.Assert(err == nil, "the generated block is accepted by the real pipeline")
	if err != nil || orig.Len() != 1 {
		return // blocks split by the pipeline are not the subject here
	}
	pre := riscvref.State{XLEN: 64, X: sym.NewArr("X", 64), CSR: sym.NewArr("CSR", 64), M: sym.NewArr("M", 8), PC: sym.BVConst(uint64(vC05Base), 64)}
	sym.Assume(pre.X.Select(sym.BVConst(0, 64)).Eq(sym.BVConst(0, 64)))
	rvenv.SideReset()
	want, _ := vRun(orig.blocks[0], pre, n+1)

	histLen := sym.Param("history", 1)
	checked := 0
	for from := 0; from < n; from++ {
		for to := 0; to < n; to++ {
			if from == to {
				continue
			}
			var c *Code
			var merr error
			sym.NoPanic(func() {
				c, _ = vBuildCode(words)
				merr = c.blocks[0].Move(from, to)
			})
			if merr != nil {
				continue
			}
			checked++
			got, ok := vRun(c.blocks[0], pre, n+1)
			tag := fmt.Sprintf("%v move %d->%d", names, from, to)
			sym.Assert(ok, tag+": the reordered block still executes instruction by instruction")
			vSameState(tag, got, want)
			if histLen >= 2 {
				for f2 := 0; f2 < n; f2++ {
					for t2 := 0; t2 < n; t2++ {
						if f2 == t2 {
							continue
						}
						var c2 *Code
						var e2 error
						sym.NoPanic(func() {
							c2, _ = vBuildCode(words)
							_ = c2.blocks[0].Move(from, to)
							e2 = c2.blocks[0].Move(f2, t2)
						})
						if e2 != nil {
							continue
						}
						got2, ok2 := vRun(c2.blocks[0], pre, n+1)
						tag2 := fmt.Sprintf("%s then %d->%d", tag, f2, t2)
						sym.Assert(ok2, tag2+": still executes")
						vSameState(tag2, got2, want)
					}
				}
			}
		}
	}
	rvenv.SideAssert()
	if checked > 0 {
		sym.Reach("some-move-accepted")
	}
}
