//go:build verif

//verif:dest internal/consoleui/internal/memview/zz_verif_c32.go

package memview

import (
	"fmt"

	"mltwist/internal/state/memory"
	"mltwist/internal/zzverif/sym"
	"mltwist/pkg/expr"
	"mltwist/pkg/model"
)

// C32: the memory view lists, in address order, one row per 16-byte aligned
// window overlapping stored memory, shows each stored byte and marks every
// absent byte, separates non-consecutive rows with an ellipsis row, and its
// address command selects the row containing the address.

type vBlk struct {
	begin uint64
	bytes []byte
}

// vSymMemory: up to maxblocks blocks inside a 64-byte region at one of three
// 16-aligned bases; offsets and lengths enumerated, bytes symbolic.
func vSymMemory() (*memory.Sparse, []vBlk, uint64) {
	// concrete 16-aligned bases: the row arithmetic divides and multiplies
	// addresses by 16, which a symbolic base would turn into solver queries
	base := []uint64{0x20, 0x10000, 0x7ffffffffffff000}[sym.Choose(3)]
	m := memory.NewSparse()
	var blks []vBlk
	nb := sym.Choose(sym.Param("maxblocks", 2) + 1)
	offs := []uint64{0, 4, 12, 16, 40}
	lens := []int{1, 6}
	if sym.Param("wide", 0) == 1 {
		lens = []int{1, 6, 20}
	}
	pos := uint64(0)
	for i := 0; i < nb; i++ {
		// strictly increasing, non-overlapping placement
		var cand []uint64
		for _, o := range offs {
			if o >= pos {
				cand = append(cand, o)
			}
		}
		if len(cand) == 0 {
			break
		}
		o := cand[sym.Choose(len(cand))]
		l := lens[sym.Choose(len(lens))]
		bs := sym.Bytes(fmt.Sprintf("blk%d", i), l)
		for j, b := range bs {
			m.Store(model.Addr(base+o+uint64(j)), expr.NewConst([]byte{b}, 1), 1)
		}
		blks = append(blks, vBlk{base + o, bs})
		pos = o + uint64(l) + 1 // leave at least one absent byte (adjacent blocks merge into one)
	}
	return m, blks, base
}

func vStored(blks []vBlk, a uint64) (byte, bool) {
	var v byte
	found := false
	for _, b := range blks {
		for j := range b.bytes {
			hit := a == b.begin+uint64(j)
			v = sym.IteU8(hit, b.bytes[j], v)
			found = sym.Or(found, hit)
		}
	}
	return v, found
}

func vHexByte(b byte) string { return fmt.Sprintf("%02X", b) }

func VerifC32Rows() {
	m, blks, base := vSymMemory()
	var v *memoryView
	sym.NoPanic(func() { v = newMemoryView(m) })
	// expected data rows: aligned windows overlapping stored memory, ascending
	var wins []uint64
	for w := base; w < base+80; w += 16 {
		has := false
		for a := w; a < w+16; a++ {
			if _, ok := vStored(blks, a); ok {
				has = true
			}
		}
		if has {
			wins = append(wins, w)
		}
	}
	// walk the produced rows
	k := 0
	prevData := false
	var prevAddr uint64
	for i, ln := range v.lines {
		if len(ln.ranges) == 0 {
			sym.Assert(i == 0 || prevData, "no two ellipsis rows in sequence")
			prevData = false
			continue
		}
		sym.Assert(k < len(wins), "no row without stored memory, no duplicate rows")
		if k >= len(wins) {
			return
		}
		sym.Assert(uint64(ln.addr) == wins[k], fmt.Sprintf("row %d is the next aligned window overlapping stored memory", i))
		if k > 0 && prevData {
			sym.Assert(prevAddr+16 == uint64(ln.addr), "consecutive data rows are adjacent windows (otherwise an ellipsis row separates them)")
		}
		if k > 0 && !prevData {
			sym.Assert(prevAddr+16 < uint64(ln.addr), "an ellipsis row appears only between non-consecutive windows")
		}
		// rendered bytes
		var text string
		sym.NoPanic(func() { text = v.formatMemLine(ln) })
		col := 0
		for a := uint64(ln.addr); a < uint64(ln.addr)+16; a++ {
			if a != uint64(ln.addr) {
				col++ // separating space
			}
			if d := a - uint64(ln.addr); d != 0 && d%8 == 0 {
				col += 2
			}
			cell := text[col : col+2]
			if b, ok := vStored(blks, a); ok {
				sym.Assert(cell == vHexByte(b), "each stored byte is shown with its current value")
			} else {
				sym.Assert(cell == emptyByte, "each absent byte is marked")
			}
			col += 2
		}
		sym.Assert(col == len(text), "a row shows exactly 16 cells")
		prevData, prevAddr = true, uint64(ln.addr)
		k++
	}
	sym.Assert(k == len(wins), "every aligned window overlapping stored memory has a row")
	if len(wins) >= 2 {
		sym.Reach("several-rows")
	}
	if len(blks) >= 2 && blks[0].begin/16 == blks[1].begin/16 {
		sym.Reach("two-blocks-one-window")
	}
}

func vCmd(m *mode, key string) func(args ...interface{}) error {
	for _, c := range commands(m) {
		for _, k := range c.Keys {
			if k == key {
				a := c.Action
				return func(args ...interface{}) error { return a(nil, args...) }
			}
		}
	}
	panic("no command " + key)
}

// VerifC32Address: the address command selects the row holding the address.
func VerifC32Address() {
	mem, blks, base := vSymMemory()
	var md *mode
	sym.NoPanic(func() { md = New(mem) })
	off := sym.Uint8("addr.off")
	sym.Assume(off < 96)
	addr := base - 8 + uint64(off)
	var err error
	sym.NoPanic(func() { err = vCmd(md, "address")(model.Addr(addr)) })
	_, stored := vStored(blks, addr)
	sym.Assert((err == nil) == stored, "the address command succeeds exactly when a row contains the address (a stored byte)")
	if err == nil {
		sym.Reach("address-found")
		ln := md.view.lines[md.view.c.Value()]
		sym.Assert(len(ln.ranges) > 0 && uint64(ln.addr) == addr/16*16, "the cursor is on the row of the window containing the address")
	} else {
		sym.Reach("address-missing")
	}
}

// VerifC22MemviewActions: no memory-view action crashes, with or without memory.
func VerifC22MemviewActions() {
	var md *mode
	switch sym.Choose(3) {
	case 0:
		sym.NoPanic(func() { md = New(nil) }) // unknown memory key in the emulator's "memory" command
	case 1:
		sym.NoPanic(func() { md = New(memory.NewSparse()) }) // empty memory
	default:
		mem, _, _ := vSymMemory()
		sym.NoPanic(func() { md = New(mem) })
	}
	name := []string{"down", "up", "goto", "address"}[sym.Choose(4)]
	sym.Reach("action:" + name)
	var arg interface{}
	if name == "address" {
		arg = model.Addr(sym.Uint64("addr"))
	} else {
		n := sym.Int("n")
		sym.Assume(n >= 0)
		arg = n
	}
	sym.NoPanic(func() { _ = vCmd(md, name)(arg) })
	// and rendering
	h := md.View().MinLines() + sym.Choose(4)
	sym.ResetOutput()
	sym.NoPanic(func() { _ = md.View().Print(h) })
	printed := sym.OutputLines()
	sym.RestoreOutput()
	sym.Assert(printed <= h, "the memory view never writes more lines than granted")
}
