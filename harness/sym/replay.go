//verif:dest internal/zzverif/sym/replay.go

package sym

// Native replay driver. This file is only part of the overlay used for
// `go test` (the engine never loads it).

import (
	"encoding/json"
	"fmt"
	"os"
	"testing"
)

type replayFile struct {
	Cases []Assignment `json:"cases"`
}

// RunReplays runs every assignment in $VERIF_REPLAY against its harness.
// Output lines: VERIF-RESULT <index> <status> <message>, status one of
// failed (assertion false / crash inside NoPanic), passed, abandoned
// (an assumption did not hold), harness-panic (crash outside NoPanic).
func RunReplays(t *testing.T, fns map[string]func()) {
	p := os.Getenv("VERIF_REPLAY")
	if p == "" {
		t.Skip("VERIF_REPLAY not set")
	}
	b, err := os.ReadFile(p)
	if err != nil {
		t.Fatal(err)
	}
	var rf replayFile
	if err := json.Unmarshal(b, &rf); err != nil {
		t.Fatal(err)
	}
	for i, c := range rf.Cases {
		f, ok := fns[c.Func]
		if !ok {
			continue
		}
		status, msg := runOne(c, f)
		RestoreOutput()
		fmt.Fprintf(RealStdout, "VERIF-RESULT %d %s %q\n", i, status, msg)
		if os.Getenv("VERIF_TRACE") != "" {
			for _, l := range st.Trace {
				fmt.Printf("VERIF-TRACE %d %s\n", i, l)
			}
		}
	}
}

func runOne(c Assignment, f func()) (status, msg string) {
	st = state{names: map[string]int{}, Reached: map[string]bool{}, loaded: true, a: c}
	defer func() {
		if r := recover(); r != nil {
			switch r := r.(type) {
			case Failure:
				status, msg = "failed", r.Msg
			case Abandon:
				status, msg = "abandoned", r.Why
			default:
				status, msg = "harness-panic", fmt.Sprint(r)
			}
		}
	}()
	f()
	return "passed", ""
}
