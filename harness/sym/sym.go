// Package sym is the harness API of gosym.
//
// Under the engine every function here is intercepted (the bodies below are
// never executed symbolically); compiled natively, the same functions read a
// concrete assignment from the file named by $VERIF_REPLAY, so that a harness
// is an ordinary Go function that replays a solver model against the real code.
//verif:dest internal/zzverif/sym/sym.go

package sym

import (
	"encoding/json"
	"fmt"
	"math/big"
	"os"
	"sort"
	"strings"
)

// Assignment is the replay input: the solver model of one violation.
type Assignment struct {
	Harness string                       `json:"harness"`
	Msg     string                       `json:"msg"`
	Kind    string                       `json:"kind"`
	Vars    map[string]string            `json:"vars"`
	Choices []int                        `json:"choices"`
	Arrs    map[string]map[string]string `json:"arrs"`
	Func    string                       `json:"func"`
	Pkg     string                       `json:"pkg"`
	Params  map[string]int               `json:"params"`
}

type state struct {
	a        Assignment
	names    map[string]int
	choice   int
	Failed   []string
	Trace    []string
	Reached  map[string]bool
	out      strings.Builder
	loaded   bool
	Lines    []string
	lineIdx  int
}

var st = state{names: map[string]int{}, Reached: map[string]bool{}}

// Failure is the panic value used for a failed assertion in native mode.
type Failure struct{ Msg string }

func (f Failure) Error() string { return "sym: assertion failed: " + f.Msg }

// Reset re-reads the assignment (native mode only).
func Reset() {
	st = state{names: map[string]int{}, Reached: map[string]bool{}}
	load()
}

func load() {
	if st.loaded {
		return
	}
	st.loaded = true
	if p := os.Getenv("VERIF_REPLAY"); p != "" {
		b, err := os.ReadFile(p)
		if err != nil {
			panic(err)
		}
		if err := json.Unmarshal(b, &st.a); err != nil {
			panic(err)
		}
	}
}

// Failed lists the assertion failures of the native run.
func Failed() []string { return st.Failed }

// Trace returns the observation trace of the native run.
func Trace() []string { return st.Trace }

func fresh(base string) string {
	n := st.names[base]
	st.names[base] = n + 1
	if n == 0 {
		return base
	}
	return fmt.Sprintf("%s#%d", base, n)
}

func val(name string) *big.Int {
	load()
	h, ok := st.a.Vars[fresh(name)]
	if !ok {
		return new(big.Int)
	}
	if h == "true" {
		return big.NewInt(1)
	}
	if h == "false" {
		return new(big.Int)
	}
	b, ok := new(big.Int).SetString(h, 16)
	if !ok {
		return new(big.Int)
	}
	return b
}

func Bool(name string) bool     { return val(name).Sign() != 0 }
func Uint8(name string) uint8   { return uint8(val(name).Uint64()) }
func Uint16(name string) uint16 { return uint16(val(name).Uint64()) }
func Uint32(name string) uint32 { return uint32(val(name).Uint64()) }
func Uint64(name string) uint64 { return val(name).Uint64() }
func Int8(name string) int8     { return int8(val(name).Uint64()) }
func Int16(name string) int16   { return int16(val(name).Uint64()) }
func Int32(name string) int32   { return int32(val(name).Uint64()) }
func Int64(name string) int64   { return int64(val(name).Uint64()) }
func Int(name string) int       { return int(val(name).Uint64()) }

// SmallBase returns a fresh symbolic uint64 that is assumed to be <= 2^62, so
// that base + small offset never wraps; the engine then decides comparisons
// of base+c1 with base+c2 from the offsets alone.
func SmallBase(name string) uint64 {
	v := Uint64(name)
	Assume(v <= 1<<62)
	return v
}

// Bytes returns n fresh symbolic bytes named name[0..n).
func Bytes(name string, n int) []byte {
	b := make([]byte, n)
	for i := range b {
		b[i] = Uint8(fmt.Sprintf("%s[%d]", name, i))
	}
	return b
}

// String returns a string of n fresh symbolic bytes.
func String(name string, n int) string { return string(Bytes(name, n)) }

// KeyIndex splits a key of the form <prefix><decimal number> (as produced by
// fmt.Sprintf("x%d", n)) into its prefix and number. Under the engine the
// number is the formatted value itself (the string is not rendered).
func KeyIndex(key string) (prefix string, idx uint64, ok bool) {
	i := len(key)
	for i > 0 && key[i-1] >= '0' && key[i-1] <= '9' {
		i--
	}
	if i == len(key) || len(key)-i > 18 {
		return "", 0, false
	}
	var n uint64
	for _, ch := range key[i:] {
		n = n*10 + uint64(ch-'0')
	}
	return key[:i], n, true
}

// SameText reports whether two texts are equal. Under the engine, texts built
// by fmt.Sprintf from symbolic numbers are compared structurally (same literal
// parts, equal numbers) without rendering the numbers.
func SameText(a, b string) bool { return a == b }

// TextSkeleton returns the text with every decimal number replaced by '#'.
func TextSkeleton(s string) string {
	var sb strings.Builder
	for i := 0; i < len(s); {
		if (s[i] >= '0' && s[i] <= '9') || (s[i] == '-' && i+1 < len(s) && s[i+1] >= '0' && s[i+1] <= '9') {
			j := i + 1
			for j < len(s) && s[j] >= '0' && s[j] <= '9' {
				j++
			}
			sb.WriteByte('#')
			i = j
			continue
		}
		sb.WriteByte(s[i])
		i++
	}
	return sb.String()
}

// Native reports whether the harness runs natively (replay) rather than under
// the engine. Harnesses use it only to pick how a stubbed environment is
// provided (e.g. a real ELF file instead of a stubbed debug/elf).
func Native() bool { return true }

// SetELF / AttachData feed the engine's debug/elf stub (no-ops natively).
func SetELF(file interface{}, openFails bool)                {}
func AttachData(obj interface{}, data []byte, readFails bool) {}

// Param returns a per-tier parameter of the check configuration.
func Param(name string, def int) int {
	load()
	if v, ok := st.a.Params[name]; ok {
		return v
	}
	return def
}

// SetTermHeight sets the height the stubbed terminal reports (engine only;
// natively the views are called with the height directly).
func SetTermHeight(h int) {}

// ResetOutput starts capturing what the code under test prints with
// fmt.Print*; OutputLines returns the number of newlines printed since.
// (Engine: the stubbed fmt.Print* log; native: os.Stdout redirected to a file.)
var (
	RealStdout = os.Stdout
	outFile    *os.File
)

func ResetOutput() {
	RestoreOutput()
	f, err := os.CreateTemp("", "verif-out-")
	if err != nil {
		panic(err)
	}
	outFile = f
	os.Stdout = f
}

func OutputLines() int {
	if outFile == nil {
		return 0
	}
	outFile.Sync()
	data, err := os.ReadFile(outFile.Name())
	if err != nil {
		panic(err)
	}
	return strings.Count(string(data), "\n")
}

// RestoreOutput ends the capture (native only; called by the replay driver).
func RestoreOutput() {
	if outFile != nil {
		os.Stdout = RealStdout
		outFile.Close()
		os.Remove(outFile.Name())
		outFile = nil
	}
}

// Choose forks n ways (0..n-1) without involving the solver.
func Choose(n int) int {
	load()
	if st.choice < len(st.a.Choices) {
		c := st.a.Choices[st.choice]
		st.choice++
		return c
	}
	st.choice++
	return 0
}

// Assume restricts the inputs. Natively a false assumption means the
// assignment does not belong to this path: the run is abandoned.
type Abandon struct{ Why string }

func Assume(c bool) {
	if !c {
		panic(Abandon{"assumption false"})
	}
}

// Assert is a proof obligation: c must hold for every input on this path.
func Assert(c bool, msg string) {
	if !c {
		st.Failed = append(st.Failed, msg)
		panic(Failure{msg})
	}
}

// MustFail is a vacuity witness: c must NOT be valid (some input falsifies it).
func MustFail(c bool, msg string) {}

// Reach marks a point that at least one feasible path must reach.
func Reach(tag string) { st.Reached[tag] = true }

// Known declares an input predicate of a known finding. While the finding is
// listed as open, violations whose inputs satisfy pred are reported as
// KNOWN-FINDING instead of VIOLATION.
func Known(id string, pred bool) {}

// NoPanic runs f; a panic inside f is a violation.
func NoPanic(f func()) {
	defer func() {
		if r := recover(); r != nil {
			switch r.(type) {
			case Failure, Abandon:
				panic(r)
			}
			msg := fmt.Sprintf("unexpected panic: %v", r)
			st.Failed = append(st.Failed, msg)
			panic(Failure{msg})
		}
	}()
	f()
}

// Panics runs f and reports whether it panicked.
func Panics(f func()) (panicked bool) {
	defer func() {
		if r := recover(); r != nil {
			switch r.(type) {
			case Failure, Abandon:
				panic(r)
			}
			panicked = true
		}
	}()
	f()
	return false
}

// Observe appends a value to the self-test trace.
func Observe(name string, v interface{}) {
	st.Trace = append(st.Trace, fmt.Sprintf("%s=%v", name, v))
}

// Non-forking boolean combinators.
func And(a, b bool) bool     { return a && b }
func Or(a, b bool) bool      { return a || b }
func Not(a bool) bool        { return !a }
func Implies(a, b bool) bool { return !a || b }

func IteU64(c bool, a, b uint64) uint64 {
	if c {
		return a
	}
	return b
}
func IteInt(c bool, a, b int) int {
	if c {
		return a
	}
	return b
}
func IteU8(c bool, a, b uint8) uint8 {
	if c {
		return a
	}
	return b
}
func IteBool(c bool, a, b bool) bool {
	if c {
		return a
	}
	return b
}

// ---- scripted console input / captured output (stub boundary of the UI)

// SetInputLines scripts the lines returned by the stubbed line reader.
func SetInputLines(lines []string) { st.Lines = lines; st.lineIdx = 0 }

// NextInputLine is used by the native line-reader shim.
func NextInputLine() (string, bool) {
	if st.lineIdx >= len(st.Lines) {
		return "", false
	}
	l := st.Lines[st.lineIdx]
	st.lineIdx++
	return l, true
}

// ---- bit-vectors of arbitrary width (reference models)

type BV struct {
	w int
	v *big.Int
}

func mask(w int) *big.Int {
	m := new(big.Int).Lsh(big.NewInt(1), uint(w))
	return m.Sub(m, big.NewInt(1))
}

func norm(v *big.Int, w int) BV {
	r := new(big.Int).And(v, mask(w))
	if r.Sign() < 0 {
		r.Add(r, new(big.Int).Lsh(big.NewInt(1), uint(w)))
	}
	return BV{w, r}
}

func (a BV) signed() *big.Int {
	if a.v.Bit(a.w-1) == 1 {
		return new(big.Int).Sub(a.v, new(big.Int).Lsh(big.NewInt(1), uint(a.w)))
	}
	return new(big.Int).Set(a.v)
}

func BVConst(v uint64, w int) BV { return norm(new(big.Int).SetUint64(v), w) }
func BVVar(name string, w int) BV { return norm(val(name), w) }
func BV8(b uint8) BV              { return BVConst(uint64(b), 8) }
func BV16(b uint16) BV            { return BVConst(uint64(b), 16) }
func BV32(b uint32) BV            { return BVConst(uint64(b), 32) }
func BV64(b uint64) BV            { return BVConst(b, 64) }
func BVBool(c bool, w int) BV {
	if c {
		return BVConst(1, w)
	}
	return BVConst(0, w)
}

// BVBytes builds a bit-vector from little-endian bytes.
func BVBytes(b []byte) BV {
	r := new(big.Int)
	for i := len(b) - 1; i >= 0; i-- {
		r.Lsh(r, 8)
		r.Or(r, big.NewInt(int64(b[i])))
	}
	return norm(r, 8*len(b))
}

func (a BV) Width() int     { return a.w }
func (a BV) Uint64() uint64 { return new(big.Int).And(a.v, mask(64)).Uint64() }
func (a BV) Uint8() uint8   { return uint8(a.Uint64()) }
func (a BV) Hex() string    { return a.v.Text(16) }

func chk(a, b BV) {
	if a.w != b.w {
		panic(fmt.Sprintf("sym.BV width mismatch %d vs %d", a.w, b.w))
	}
}

func (a BV) Add(b BV) BV { chk(a, b); return norm(new(big.Int).Add(a.v, b.v), a.w) }
func (a BV) Sub(b BV) BV { chk(a, b); return norm(new(big.Int).Sub(a.v, b.v), a.w) }
func (a BV) Mul(b BV) BV { chk(a, b); return norm(new(big.Int).Mul(a.v, b.v), a.w) }
func (a BV) UDiv(b BV) BV {
	chk(a, b)
	if b.v.Sign() == 0 {
		return norm(mask(a.w), a.w)
	}
	return norm(new(big.Int).Div(a.v, b.v), a.w)
}
func (a BV) URem(b BV) BV {
	chk(a, b)
	if b.v.Sign() == 0 {
		return a
	}
	return norm(new(big.Int).Mod(a.v, b.v), a.w)
}
func (a BV) SDiv(b BV) BV {
	chk(a, b)
	x, y := a.signed(), b.signed()
	if y.Sign() == 0 {
		if x.Sign() < 0 {
			return BVConst(1, a.w)
		}
		return norm(mask(a.w), a.w)
	}
	return norm(new(big.Int).Quo(x, y), a.w)
}
func (a BV) SRem(b BV) BV {
	chk(a, b)
	x, y := a.signed(), b.signed()
	if y.Sign() == 0 {
		return a
	}
	return norm(new(big.Int).Rem(x, y), a.w)
}
func (a BV) And(b BV) BV { chk(a, b); return norm(new(big.Int).And(a.v, b.v), a.w) }
func (a BV) Or(b BV) BV  { chk(a, b); return norm(new(big.Int).Or(a.v, b.v), a.w) }
func (a BV) Xor(b BV) BV { chk(a, b); return norm(new(big.Int).Xor(a.v, b.v), a.w) }
func (a BV) Not() BV     { return norm(new(big.Int).Xor(a.v, mask(a.w)), a.w) }
func (a BV) Neg() BV     { return norm(new(big.Int).Neg(a.v), a.w) }
func (a BV) Shl(b BV) BV {
	chk(a, b)
	if b.v.Cmp(big.NewInt(int64(a.w))) >= 0 {
		return BVConst(0, a.w)
	}
	return norm(new(big.Int).Lsh(a.v, uint(b.v.Uint64())), a.w)
}
func (a BV) LShr(b BV) BV {
	chk(a, b)
	if b.v.Cmp(big.NewInt(int64(a.w))) >= 0 {
		return BVConst(0, a.w)
	}
	return norm(new(big.Int).Rsh(a.v, uint(b.v.Uint64())), a.w)
}
func (a BV) AShr(b BV) BV {
	chk(a, b)
	s := a.signed()
	if b.v.Cmp(big.NewInt(int64(a.w))) >= 0 {
		if s.Sign() < 0 {
			return norm(big.NewInt(-1), a.w)
		}
		return BVConst(0, a.w)
	}
	return norm(s.Rsh(s, uint(b.v.Uint64())), a.w)
}
func (a BV) Eq(b BV) bool  { chk(a, b); return a.v.Cmp(b.v) == 0 }
func (a BV) Ult(b BV) bool { chk(a, b); return a.v.Cmp(b.v) < 0 }
func (a BV) Ule(b BV) bool { chk(a, b); return a.v.Cmp(b.v) <= 0 }
func (a BV) Slt(b BV) bool { chk(a, b); return a.signed().Cmp(b.signed()) < 0 }
func (a BV) Sle(b BV) bool { chk(a, b); return a.signed().Cmp(b.signed()) <= 0 }

// Concat returns a:lo (a in the high bits).
func (a BV) Concat(lo BV) BV {
	r := new(big.Int).Lsh(a.v, uint(lo.w))
	return norm(r.Or(r, lo.v), a.w+lo.w)
}

// Extract returns bits hi..lo inclusive.
func (a BV) Extract(hi, lo int) BV {
	return norm(new(big.Int).Rsh(a.v, uint(lo)), hi-lo+1)
}

// ZExt zero-extends or truncates to w bits.
func (a BV) ZExt(w int) BV { return norm(a.v, w) }

// SExt sign-extends or truncates to w bits.
func (a BV) SExt(w int) BV {
	if w <= a.w {
		return norm(a.v, w)
	}
	return norm(a.signed(), w)
}

func BVIte(c bool, a, b BV) BV {
	chk(a, b)
	if c {
		return a
	}
	return b
}

// Byte returns byte i (little-endian) as a Go byte.
func (a BV) Byte(i int) uint8 { return a.Extract(8*i+7, 8*i).Uint8() }

// ---- SMT arrays BV(64) -> BV(8) (memories) and BV(64)->BV(64) (register files)

type Arr struct {
	elemW int
	m     map[uint64]*big.Int
	def   map[uint64]*big.Int // initial (model) contents
}

// NewArr returns a fresh symbolic array with 64-bit index and elemW-bit elements.
func NewArr(name string, elemW int) Arr {
	load()
	a := Arr{elemW: elemW, m: map[uint64]*big.Int{}, def: map[uint64]*big.Int{}}
	for k, v := range st.a.Arrs[fresh(name)] {
		ki, _ := new(big.Int).SetString(k, 16)
		vi, _ := new(big.Int).SetString(v, 16)
		if ki != nil && vi != nil {
			a.def[ki.Uint64()] = vi
		}
	}
	return a
}

func (a Arr) Select(idx BV) BV {
	k := idx.Uint64()
	if v, ok := a.m[k]; ok {
		return norm(v, a.elemW)
	}
	if v, ok := a.def[k]; ok {
		return norm(v, a.elemW)
	}
	return BVConst(0, a.elemW)
}

func (a Arr) Store(idx BV, v BV) Arr {
	n := Arr{elemW: a.elemW, m: make(map[uint64]*big.Int, len(a.m)+1), def: a.def}
	for k, x := range a.m {
		n.m[k] = x
	}
	n.m[idx.Uint64()] = v.v
	return n
}

// ArrIte selects between two arrays.
func ArrIte(c bool, a, b Arr) Arr {
	if c {
		return a
	}
	return b
}

// Dump is a debugging aid (native only).
func (a Arr) Dump() string {
	var ks []uint64
	for k := range a.m {
		ks = append(ks, k)
	}
	sort.Slice(ks, func(i, j int) bool { return ks[i] < ks[j] })
	var sb strings.Builder
	for _, k := range ks {
		fmt.Fprintf(&sb, "%x:%s ", k, a.m[k].Text(16))
	}
	return sb.String()
}
