//go:build verif

//verif:dest internal/exprtransform/zz_verif_c11.go

package exprtransform

import (
	"fmt"

	"mltwist/internal/zzverif/irsem"
	"mltwist/internal/zzverif/sym"
	"mltwist/pkg/expr"
	"mltwist/pkg/expr/exprtools"
)

// C11: every exprtools gadget evaluates (under the IR reference semantics) to
// the function its documentation defines, for all operand values.



var vC11Gadgets = []string{
	"Negate", "Sub", "Abs", "Ones", "Mod", "SignedMul", "SignedDiv", "SignedMod", "SignExtend", "RshA",
	"BitNot", "BitAnd", "BitOr", "BitXor", "Bool", "Not", "BoolCond", "Eq", "Lts", "Leu", "Les",
	"MaskBits", "IntNegative", "WidthGadget",
}

func vWidths(set int) []expr.Width {
	switch set {
	case 0:
		return []expr.Width{1, 2}
	case 1:
		return []expr.Width{1, 2, 4, 8}
	default:
		return []expr.Width{1, 2, 3, 4, 8, 16}
	}
}

func vPickWidth(set int) expr.Width {
	ws := vWidths(set)
	return ws[sym.Choose(len(ws))]
}

// vAbsBV is |x| for a signed bit-vector (the minimum value stays itself).
func vAbsBV(x sym.BV) sym.BV {
	zero := sym.BVConst(0, x.Width())
	return sym.BVIte(x.Slt(zero), x.Neg(), x)
}

// vURem is a - (a udiv b)*b, which equals bvurem(a,b) including b = 0
// (bvudiv by zero is all ones, times zero is zero).
func vURem(a, b sym.BV) sym.BV { return a.Sub(a.UDiv(b).Mul(b)) }

type vGadgetCase struct {
	e   expr.Expr // the gadget over leaves
	ref sym.BV    // documented function
	// nonzero: compare only "is non-zero" (IntNegative)
	nonzeroOnly bool
}

// vBuildGadget builds gadget name over the leaf expressions a, b (and t, f
// for selections), whose values are va, vb, vt, vf.
func vBuildGadget(name string, w expr.Width, a, b, t, f expr.Expr, va, vb, vt, vf sym.BV) vGadgetCase {
	W := 8 * int(w)
	A, B := va.ZExt(W), vb.ZExt(W)
	T, F := vt.ZExt(W), vf.ZExt(W)
	zero, one := sym.BVConst(0, W), sym.BVConst(1, W)
	switch name {
	case "Negate":
		return vGadgetCase{e: exprtools.Negate(a, w), ref: A.Neg()}
	case "Sub":
		return vGadgetCase{e: exprtools.Sub(a, b, w), ref: A.Sub(B)}
	case "Abs":
		return vGadgetCase{e: exprtools.Abs(a, w), ref: vAbsBV(A)}
	case "Ones":
		return vGadgetCase{e: exprtools.Ones(w), ref: zero.Not()}
	case "Mod":
		ref := vURem(A, B)
		if w == 1 {
			ref = A.URem(B)
		}
		return vGadgetCase{e: exprtools.Mod(a, b, w), ref: ref}
	case "SignedMul":
		// operands are signed numbers of their own width; result has width 2w
		sa := va.SExt(2 * W)
		sb := vb.SExt(2 * W)
		return vGadgetCase{e: exprtools.SignedMul(a, b, w), ref: sa.Mul(sb)}
	case "SignedDiv":
		// truncating division; all ones for a zero divisor; the dividend on overflow
		refS := sym.BVIte(B.Eq(zero), zero.Not(), A.SDiv(B))
		// the same function in magnitude form: sign fix-up of |a| udiv |b|
		q := vAbsBV(A).UDiv(vAbsBV(B))
		neg := A.Slt(zero) != B.Slt(zero)
		refM := sym.BVIte(B.Eq(zero), zero.Not(), sym.BVIte(neg, q.Neg(), q))
		if W <= 8 {
			sym.Assert(refS.Eq(refM), "reference self-check: bvsdiv form equals magnitude form")
			return vGadgetCase{e: exprtools.SignedDiv(a, b, w), ref: refS}
		}
		return vGadgetCase{e: exprtools.SignedDiv(a, b, w), ref: refM}
	case "SignedMod":
		// the suite's convention: |a| mod |b| (|a| for b = 0), negated iff the signs differ
		r := vURem(vAbsBV(A), vAbsBV(B))
		if w == 1 {
			r = vAbsBV(A).URem(vAbsBV(B))
		}
		neg := A.Slt(zero) != B.Slt(zero)
		return vGadgetCase{e: exprtools.SignedMod(a, b, w), ref: sym.BVIte(neg, r.Neg(), r)}
	case "SignExtend":
		// sign bit position k is a one-byte constant with symbolic value < 8w
		k := sym.Uint8("signbit")
		sym.Assume(int(k) < W)
		K := sym.BV8(k).ZExt(W)
		low := one.Shl(K.Add(one)).Sub(one) // bits 0..k   (k = 8w-1: 1<<8w = 0, minus 1 = all ones)
		bit := A.LShr(K).And(one)
		ref := sym.BVIte(bit.Eq(one), A.Or(low.Not()), A.And(low))
		return vGadgetCase{e: exprtools.SignExtend(a, expr.NewConst([]byte{k}, 1), w), ref: ref}
	case "RshA":
		return vGadgetCase{e: exprtools.RshA(a, b, w), ref: A.AShr(B)}
	case "BitNot":
		return vGadgetCase{e: exprtools.BitNot(a, w), ref: A.Not()}
	case "BitAnd":
		return vGadgetCase{e: exprtools.BitAnd(a, b, w), ref: A.And(B)}
	case "BitOr":
		return vGadgetCase{e: exprtools.BitOr(a, b, w), ref: A.Or(B)}
	case "BitXor":
		return vGadgetCase{e: exprtools.BitXor(a, b, w), ref: A.Xor(B)}
	case "Bool":
		nz := !va.Eq(sym.BVConst(0, va.Width()))
		return vGadgetCase{e: exprtools.Bool(a), ref: sym.BVBool(nz, 8)}
	case "Not":
		nz := !va.Eq(sym.BVConst(0, va.Width()))
		return vGadgetCase{e: exprtools.Not(a), ref: sym.BVBool(!nz, 8)}
	case "BoolCond":
		nz := !va.Eq(sym.BVConst(0, va.Width()))
		return vGadgetCase{e: exprtools.BoolCond(a, t, f, w), ref: sym.BVIte(nz, T, F)}
	case "Eq":
		return vGadgetCase{e: exprtools.Eq(a, b, t, f, w), ref: sym.BVIte(A.Eq(B), T, F)}
	case "Lts":
		return vGadgetCase{e: exprtools.Lts(a, b, t, f, w), ref: sym.BVIte(A.Slt(B), T, F)}
	case "Leu":
		return vGadgetCase{e: exprtools.Leu(a, b, t, f, w), ref: sym.BVIte(A.Ule(B), T, F)}
	case "Les":
		return vGadgetCase{e: exprtools.Les(a, b, t, f, w), ref: sym.BVIte(A.Sle(B), T, F)}
	case "MaskBits":
		cnt := sym.Uint16("cnt")
		sym.Assume(int(cnt) <= W)
		C := sym.BV16(cnt).ZExt(W + 8)
		m := sym.BVConst(1, W+8).Shl(C).Sub(sym.BVConst(1, W+8)).ZExt(W)
		return vGadgetCase{e: exprtools.MaskBits(a, exprtools.BitCnt(cnt), w), ref: A.And(m)}
	case "IntNegative":
		return vGadgetCase{e: exprtools.IntNegative(a, w), ref: sym.BVBool(A.Slt(zero), W), nonzeroOnly: true}
	case "WidthGadget":
		return vGadgetCase{e: exprtools.NewWidthGadget(a, w), ref: A}
	}
	panic("unknown gadget " + name)
}

func vSignedGadget(name string) bool {
	switch name {
	case "SignedMul", "SignedDiv", "SignedMod", "Abs", "Lts", "Les", "RshA", "IntNegative", "SignExtend":
		return true
	}
	return false
}

// VerifC11Gadgets: gadget over register leaves, evaluated by the reference
// semantics of the IR, equals the documented function.
func VerifC11Gadgets() {
	set := sym.Param("wset", 0)
	name := vC11Gadgets[sym.Choose(len(vC11Gadgets))]
	w := vPickWidth(set)
	wa, wb := w, w
	if !vSignedGadget(name) {
		// unsigned gadgets: operands of any width (zero-extended / truncated)
		wa, wb = vPickWidth(set), vPickWidth(set)
	}
	if name == "BoolCond" && wa > w {
		wa = w // documented domain: the condition fits the operation width
	}
	env := irsem.NewMapEnv(128)
	a := expr.NewRegLoad("a", wa)
	b := expr.NewRegLoad("b", wb)
	t := expr.NewRegLoad("t", w)
	f := expr.NewRegLoad("f", w)
	va, vb := irsem.Eval(a, env), irsem.Eval(b, env)
	vt, vf := irsem.Eval(t, env), irsem.Eval(f, env)
	var g vGadgetCase
	sym.NoPanic(func() { g = vBuildGadget(name, w, a, b, t, f, va, vb, vt, vf) })
	sym.Reach("prog:" + name + fmt.Sprintf("/w%d", w))
	got := irsem.Eval(g.e, env)
	sym.Assert(got.Width() == g.ref.Width(), name+": width of the gadget")
	if g.nonzeroOnly {
		z := sym.BVConst(0, got.Width())
		sym.Assert(!got.Eq(z) == !g.ref.Eq(z), name+": non-zero exactly when negative")
		sym.MustFail(got.Eq(z), "twin: "+name+" is always zero")
		return
	}
	sym.Assert(got.Eq(g.ref), name+": value equals the documented function")
	if name != "Ones" {
		sym.MustFail(got.Eq(va.ZExt(got.Width())), "twin: gadget is the identity on its first operand")
	}
	if name == "WidthGadget" {
		arg, ok := exprtools.WidthGadgetArg(g.e)
		sym.Assert(ok && Equal(arg, a), "WidthGadgetArg returns the wrapped expression")
	}
}

// VerifC11Folded: the same gadgets over constant leaves, pushed through the
// tool's own evaluator (ConstFold), give the documented function.
func VerifC11Folded() {
	set := sym.Param("wset", 0)
	name := vC11Gadgets[sym.Choose(len(vC11Gadgets))]
	w := vPickWidth(set)
	switch name {
	case "SignedMod", "SignedDiv", "Mod":
		// byte-wise adders feeding a divider and a multiplier: beyond this
		// width the solver does not finish; the composition of C09/C10 (the
		// evaluator is exact) with harness 'gadgets' covers the rest.
		if int(w) > sym.Param("divmaxw", 1) {
			return
		}
	}
	ba, bb := sym.Bytes("a", int(w)), sym.Bytes("b", int(w))
	bt, bf := sym.Bytes("t", int(w)), sym.Bytes("f", int(w))
	a, b := expr.NewConst(ba, w), expr.NewConst(bb, w)
	t, f := expr.NewConst(bt, w), expr.NewConst(bf, w)
	var g vGadgetCase
	var folded expr.Expr
	sym.NoPanic(func() {
		g = vBuildGadget(name, w, a, b, t, f, sym.BVBytes(ba), sym.BVBytes(bb), sym.BVBytes(bt), sym.BVBytes(bf))
		folded = ConstFold(g.e)
	})
	sym.Reach("prog:" + name + fmt.Sprintf("/w%d", w))
	c, ok := folded.(expr.Const)
	sym.Assert(ok, name+": a gadget over constants folds to a constant")
	if !ok {
		return
	}
	got := irsem.ConstBV(c)
	sym.Assert(got.Width() == g.ref.Width(), name+": width of the folded gadget")
	if g.nonzeroOnly {
		z := sym.BVConst(0, got.Width())
		sym.Assert(!got.Eq(z) == !g.ref.Eq(z), name+": folded: non-zero exactly when negative")
		return
	}
	sym.Assert(got.Eq(g.ref), name+": folded value equals the documented function")
}
