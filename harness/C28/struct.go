//go:build verif

//verif:dest internal/exprtransform/zz_verif_c28.go

package exprtransform

import (
	"mltwist/internal/zzverif/sym"
	"mltwist/pkg/expr"
)

// C28: structural expression utilities are exact.

// vSameShape: identical constructors, operators, keys and widths at every
// node; constants compared by value. Returns (shape equal, values equal).
func vStructEq(a, b expr.Expr) bool {
	if a.Width() != b.Width() {
		return false
	}
	switch x := a.(type) {
	case expr.Const:
		y, ok := b.(expr.Const)
		if !ok {
			return false
		}
		r := true
		for i := range x.Bytes() {
			r = sym.And(r, x.Bytes()[i] == y.Bytes()[i])
		}
		return r
	case expr.RegLoad:
		y, ok := b.(expr.RegLoad)
		return ok && x.Key() == y.Key()
	case expr.MemLoad:
		y, ok := b.(expr.MemLoad)
		if !ok || x.Key() != y.Key() {
			return false
		}
		return vStructEq(x.Addr(), y.Addr())
	case expr.Binary:
		y, ok := b.(expr.Binary)
		if !ok || x.Op() != y.Op() {
			return false
		}
		return sym.And(vStructEq(x.Arg1(), y.Arg1()), vStructEq(x.Arg2(), y.Arg2()))
	case expr.Less:
		y, ok := b.(expr.Less)
		if !ok {
			return false
		}
		return sym.And(sym.And(vStructEq(x.Arg1(), y.Arg1()), vStructEq(x.Arg2(), y.Arg2())),
			sym.And(vStructEq(x.ExprTrue(), y.ExprTrue()), vStructEq(x.ExprFalse(), y.ExprFalse())))
	}
	return false
}

// vPreorder lists all sub-expressions in pre-order (reference traversal).
func vPreorder(e expr.Expr, out []expr.Expr) []expr.Expr {
	out = append(out, e)
	switch x := e.(type) {
	case expr.Binary:
		out = vPreorder(x.Arg1(), out)
		out = vPreorder(x.Arg2(), out)
	case expr.Less:
		out = vPreorder(x.Arg1(), out)
		out = vPreorder(x.Arg2(), out)
		out = vPreorder(x.ExprTrue(), out)
		out = vPreorder(x.ExprFalse(), out)
	case expr.MemLoad:
		out = vPreorder(x.Addr(), out)
	}
	return out
}

// vMutate returns a structural variant of e: one node changed (operator,
// width, key, operand order), or e itself rebuilt (variant 0).
func vRebuild(e expr.Expr, target, variant int, cnt *int) expr.Expr {
	me := *cnt
	*cnt++
	hit := me == target
	switch x := e.(type) {
	case expr.Const:
		if hit && variant == 1 {
			bs := append([]byte(nil), x.Bytes()...)
			bs[0] = sym.Uint8("mutbyte")
			return expr.NewConst(bs, x.Width())
		}
		if hit && variant == 2 {
			return expr.NewConst(x.Bytes(), x.Width()+1)
		}
		return expr.NewConst(x.Bytes(), x.Width())
	case expr.RegLoad:
		if hit && variant == 1 {
			return expr.NewRegLoad(x.Key()+"'", x.Width())
		}
		if hit && variant == 2 {
			return expr.NewRegLoad(x.Key(), x.Width()+1)
		}
		return expr.NewRegLoad(x.Key(), x.Width())
	case expr.MemLoad:
		a := vRebuild(x.Addr(), target, variant, cnt)
		if hit && variant == 1 {
			return expr.NewMemLoad(x.Key()+"'", a, x.Width())
		}
		if hit && variant == 2 {
			return expr.NewMemLoad(x.Key(), a, x.Width()+1)
		}
		return expr.NewMemLoad(x.Key(), a, x.Width())
	case expr.Binary:
		a1 := vRebuild(x.Arg1(), target, variant, cnt)
		a2 := vRebuild(x.Arg2(), target, variant, cnt)
		if hit && variant == 1 {
			op := expr.Add
			if x.Op() == expr.Add {
				op = expr.Nand
			}
			return expr.NewBinary(op, a1, a2, x.Width())
		}
		if hit && variant == 2 {
			return expr.NewBinary(x.Op(), a1, a2, x.Width()+1)
		}
		if hit && variant == 3 {
			return expr.NewBinary(x.Op(), a2, a1, x.Width())
		}
		return expr.NewBinary(x.Op(), a1, a2, x.Width())
	case expr.Less:
		a1 := vRebuild(x.Arg1(), target, variant, cnt)
		a2 := vRebuild(x.Arg2(), target, variant, cnt)
		t := vRebuild(x.ExprTrue(), target, variant, cnt)
		f := vRebuild(x.ExprFalse(), target, variant, cnt)
		if hit && variant == 1 {
			return expr.NewLess(a1, a2, f, t, x.Width())
		}
		if hit && variant == 2 {
			return expr.NewLess(a1, a2, t, f, x.Width()+1)
		}
		if hit && variant == 3 {
			return expr.NewLess(a2, a1, t, f, x.Width())
		}
		return expr.NewLess(a1, a2, t, f, x.Width())
	}
	panic("unknown expr")
}

func VerifC28Equal() {
	c := vCfg(sym.Param("wset", 0))
	c.keys = []expr.Key{"r0", "r1"}
	e := vPickTree(c)
	nodes := vPreorder(e, nil)
	target := sym.Choose(len(nodes))
	variant := sym.Choose(4)
	cnt := 0
	e2 := vRebuild(e, target, variant, &cnt)
	var got bool
	sym.NoPanic(func() { got = Equal(e, e2) })
	sym.Assert(got == vStructEq(e, e2), "Equal holds exactly for identically built trees")
	if variant == 0 {
		sym.Reach("identical")
		sym.Assert(got, "Equal holds for a rebuilt identical tree")
	} else {
		sym.Reach("mutated")
	}
}

func VerifC28FindReplace() {
	c := vCfg(sym.Param("wset", 0))
	c.keys = []expr.Key{"r0", "r1"}
	e := vPickTree(c)
	nodes := vPreorder(e, nil)
	// FindAll[T] = the nodes of type T in pre-order
	var wantRegs []expr.RegLoad
	var wantBins []expr.Binary
	var wantConsts []expr.Const
	for _, n := range nodes {
		switch x := n.(type) {
		case expr.RegLoad:
			wantRegs = append(wantRegs, x)
		case expr.Binary:
			wantBins = append(wantBins, x)
		case expr.Const:
			wantConsts = append(wantConsts, x)
		}
	}
	var regs []expr.RegLoad
	var bins []expr.Binary
	var consts []expr.Const
	var all []expr.Expr
	sym.NoPanic(func() {
		regs = FindAll[expr.RegLoad](e)
		bins = FindAll[expr.Binary](e)
		consts = FindAll[expr.Const](e)
		all = FindAll[expr.Expr](e)
	})
	ok := len(regs) == len(wantRegs) && len(bins) == len(wantBins) && len(consts) == len(wantConsts) && len(all) == len(nodes)
	sym.Assert(ok, "FindAll returns every sub-expression of the requested kind")
	if !ok {
		return
	}
	same := true
	for i := range regs {
		same = sym.And(same, vStructEq(regs[i], wantRegs[i]))
	}
	for i := range bins {
		same = sym.And(same, vStructEq(bins[i], wantBins[i]))
	}
	for i := range consts {
		same = sym.And(same, vStructEq(consts[i], wantConsts[i]))
	}
	for i := range all {
		same = sym.And(same, vStructEq(all[i], nodes[i]))
	}
	sym.Assert(same, "FindAll returns the sub-expressions in pre-order")

	// ReplaceAll: nothing matches -> the same tree
	var r0 expr.Expr
	sym.NoPanic(func() {
		r0 = ReplaceAll(e, func(x expr.RegLoad) (expr.Expr, bool) { return nil, false })
	})
	sym.Assert(Equal(r0, e) && vStructEq(r0, e), "ReplaceAll returns the same tree when nothing matches")
	// replace every load of r0 by a constant; reference = bottom-up rewrite
	repl := expr.NewConst([]byte{0xAB}, 1)
	var r1 expr.Expr
	sym.NoPanic(func() {
		r1 = ReplaceAll(e, func(x expr.RegLoad) (expr.Expr, bool) {
			if x.Key() == "r0" {
				return repl, true
			}
			return nil, false
		})
	})
	sym.Assert(vStructEq(r1, vRefReplace(e, repl)), "ReplaceAll replaces exactly the matching sub-expressions")
	if len(wantRegs) > 0 {
		sym.Reach("has-regs")
	}
	// replace every Binary by its first argument (bottom-up: arguments are rewritten first)
	var r2 expr.Expr
	sym.NoPanic(func() {
		r2 = ReplaceAll(e, func(x expr.Binary) (expr.Expr, bool) { return x.Arg1(), true })
	})
	sym.Assert(vStructEq(r2, vRefDropBinary(e)), "ReplaceAll works bottom-up")

	// selective rewrites of inner nodes: the callback declines some nodes of
	// the requested kind; replacements below a declined node must survive.
	var r3, r4, r5 expr.Expr
	sym.NoPanic(func() {
		r3 = ReplaceAll(e, func(x expr.Binary) (expr.Expr, bool) {
			if x.Op() == expr.Add {
				return x.Arg1(), true
			}
			return nil, false
		})
		r4 = ReplaceAll(e, func(x expr.MemLoad) (expr.Expr, bool) {
			if x.Key() == "m" {
				return expr.NewRegLoad("was-m", x.Width()), true
			}
			return nil, false
		})
		r5 = ReplaceAll(e, func(x expr.Less) (expr.Expr, bool) {
			if x.Width() == 1 {
				return x.ExprTrue(), true
			}
			return nil, false
		})
	})
	sym.Assert(vStructEq(r3, vRefSelective(e, 0)), "ReplaceAll replaces exactly the accepted Binary nodes, also below declined ones")
	sym.Assert(vStructEq(r4, vRefSelective(e, 1)), "ReplaceAll replaces exactly the accepted MemLoad nodes, also below declined ones")
	sym.Assert(vStructEq(r5, vRefSelective(e, 2)), "ReplaceAll replaces exactly the accepted Less nodes, also below declined ones")
	if !vStructEq(r3, e) {
		sym.Reach("selective-changed")
	}
}

// vRefSelective is the bottom-up reference of the three selective rewrites.
func vRefSelective(e expr.Expr, mode int) expr.Expr {
	switch x := e.(type) {
	case expr.MemLoad:
		a := vRefSelective(x.Addr(), mode)
		if mode == 1 && x.Key() == "m" {
			return expr.NewRegLoad("was-m", x.Width())
		}
		return expr.NewMemLoad(x.Key(), a, x.Width())
	case expr.Binary:
		a1, a2 := vRefSelective(x.Arg1(), mode), vRefSelective(x.Arg2(), mode)
		if mode == 0 && x.Op() == expr.Add {
			return a1
		}
		return expr.NewBinary(x.Op(), a1, a2, x.Width())
	case expr.Less:
		a1, a2 := vRefSelective(x.Arg1(), mode), vRefSelective(x.Arg2(), mode)
		t, f := vRefSelective(x.ExprTrue(), mode), vRefSelective(x.ExprFalse(), mode)
		if mode == 2 && x.Width() == 1 {
			return t
		}
		return expr.NewLess(a1, a2, t, f, x.Width())
	}
	return e
}

func vRefReplace(e expr.Expr, repl expr.Expr) expr.Expr {
	switch x := e.(type) {
	case expr.RegLoad:
		if x.Key() == "r0" {
			return repl
		}
		return x
	case expr.MemLoad:
		return expr.NewMemLoad(x.Key(), vRefReplace(x.Addr(), repl), x.Width())
	case expr.Binary:
		return expr.NewBinary(x.Op(), vRefReplace(x.Arg1(), repl), vRefReplace(x.Arg2(), repl), x.Width())
	case expr.Less:
		return expr.NewLess(vRefReplace(x.Arg1(), repl), vRefReplace(x.Arg2(), repl), vRefReplace(x.ExprTrue(), repl), vRefReplace(x.ExprFalse(), repl), x.Width())
	}
	return e
}

func vRefDropBinary(e expr.Expr) expr.Expr {
	switch x := e.(type) {
	case expr.MemLoad:
		return expr.NewMemLoad(x.Key(), vRefDropBinary(x.Addr()), x.Width())
	case expr.Binary:
		return vRefDropBinary(x.Arg1())
	case expr.Less:
		return expr.NewLess(vRefDropBinary(x.Arg1()), vRefDropBinary(x.Arg2()), vRefDropBinary(x.ExprTrue()), vRefDropBinary(x.ExprFalse()), x.Width())
	}
	return e
}

func VerifC28Effects() {
	c := vCfg(sym.Param("wset", 0))
	val := c.gen(1)
	addr := c.leaf()
	w := c.width()
	var ef expr.Effect
	isMem := sym.Choose(2) == 0
	if isMem {
		ef = expr.NewMemStore(val, "m", addr, w)
	} else {
		ef = expr.NewRegStore(val, "r9", w)
	}
	var es []expr.Expr
	var applied expr.Effect
	var many []expr.Expr
	var appliedMany []expr.Effect
	wrap := func(x expr.Expr) expr.Expr { return expr.NewBinary(expr.Add, x, expr.One, x.Width()) }
	sym.NoPanic(func() {
		es = Exprs(ef)
		applied = EffectApply(ef, wrap)
		many = ExprsMany([]expr.Effect{ef, ef})
		appliedMany = EffectsApply([]expr.Effect{ef, ef}, wrap)
	})
	if isMem {
		sym.Reach("memstore")
		ok := len(es) == 2 && len(many) == 4
		sym.Assert(ok, "a memory store has exactly its address and value operands")
		if ok {
			sym.Assert(sym.And(vStructEq(es[0], addr), vStructEq(es[1], val)), "Exprs lists address and value")
			sym.Assert(sym.And(sym.And(vStructEq(many[0], addr), vStructEq(many[1], val)), sym.And(vStructEq(many[2], addr), vStructEq(many[3], val))), "ExprsMany concatenates per effect")
		}
		a, ok2 := applied.(expr.MemStore)
		sym.Assert(ok2 && a.Key() == "m" && a.Width() == w, "EffectApply preserves kind, key and width")
		if ok2 {
			sym.Assert(sym.And(vStructEq(a.Value(), wrap(val)), vStructEq(a.Addr(), wrap(addr))), "EffectApply transforms exactly the operand expressions")
		}
	} else {
		sym.Reach("regstore")
		ok := len(es) == 1 && len(many) == 2
		sym.Assert(ok, "a register store has exactly its value operand")
		if ok {
			sym.Assert(sym.And(vStructEq(es[0], val), sym.And(vStructEq(many[0], val), vStructEq(many[1], val))), "Exprs lists the value")
		}
		a, ok2 := applied.(expr.RegStore)
		sym.Assert(ok2 && a.Key() == "r9" && a.Width() == w, "EffectApply preserves kind, key and width")
		if ok2 {
			sym.Assert(vStructEq(a.Value(), wrap(val)), "EffectApply transforms exactly the operand expression")
		}
	}
	sym.Assert(len(appliedMany) == 2, "EffectsApply keeps the number of effects")
}
