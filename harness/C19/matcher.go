//go:build verif

//verif:dest internal/opcode/zz_verif_c19.go

package opcode

import (
	"fmt"

	"mltwist/internal/zzverif/sym"
)

// C19: building a matcher succeeds exactly when every pattern is well formed
// and no byte string matches two patterns; a successful matcher returns the
// unique pattern whose masked bits agree with the string's prefix, or none.

type vOp struct {
	name string
	op   Opcode
}

func (o *vOp) Opcode() Opcode { return o.op }
func (o *vOp) Name() string   { return o.name }

// vWellFormed is Validate's documented contract.
func vWellFormed(o Opcode) bool {
	if len(o.Bytes) == 0 || len(o.Bytes) != len(o.Mask) {
		return false
	}
	return o.Mask[len(o.Mask)-1] != 0
}

// vMatches: pattern o matches string s (prefix match on the masked bits).
func vMatches(o Opcode, s []byte) bool {
	if len(s) < len(o.Mask) {
		return false
	}
	ok := true
	for k := range o.Mask {
		ok = sym.And(ok, s[k]&o.Mask[k] == o.Bytes[k]&o.Mask[k])
	}
	return ok
}

// vCompatible: some byte string matches both patterns. A string of the longer
// length exists iff the patterns agree on the bits both masks select within
// the common prefix (all other bits of the string can be chosen freely).
func vCompatible(a, b Opcode) bool {
	n := len(a.Mask)
	if len(b.Mask) < n {
		n = len(b.Mask)
	}
	ok := true
	for k := 0; k < n; k++ {
		ok = sym.And(ok, (a.Bytes[k]^b.Bytes[k])&a.Mask[k]&b.Mask[k] == 0)
	}
	return ok
}

func vSymOpcode(i int, allowMalformed bool) Opcode {
	shapes := [][2]int{{1, 1}, {2, 2}}
	if sym.Param("maxlen", 2) >= 3 {
		shapes = append(shapes, [2]int{3, 3})
	}
	if allowMalformed {
		shapes = append(shapes, [2]int{1, 2}, [2]int{0, 0})
	}
	sh := shapes[sym.Choose(len(shapes))]
	return Opcode{Bytes: sym.Bytes(fmt.Sprintf("p%d.bytes", i), sh[0]), Mask: sym.Bytes(fmt.Sprintf("p%d.mask", i), sh[1])}
}

func VerifC19Matcher() {
	n := sym.Param("patterns", 2)
	ops := make([]*vOp, n)
	for i := range ops {
		ops[i] = &vOp{name: fmt.Sprintf("op%d", i), op: vSymOpcode(i, sym.Param("malformed", 1) == 1)}
	}
	// the constructor may reorder its argument slice; keep our own view
	view := make([]*vOp, n)
	copy(view, ops)
	var m *Matcher[*vOp]
	var err error
	sym.NoPanic(func() { m, err = NewMatcher(ops) })

	allOK := true
	for _, o := range view {
		allOK = allOK && vWellFormed(o.op) // shape is concrete except the last mask byte
	}
	conflict := false
	if allOK {
		for i := range view {
			for j := i + 1; j < len(view); j++ {
				conflict = sym.Or(conflict, vCompatible(view[i].op, view[j].op))
			}
		}
	}
	sym.Assert((err == nil) == sym.And(allOK, !conflict), "NewMatcher succeeds exactly when all patterns are well formed and no byte string matches two of them")
	if err != nil {
		sym.Reach("rejected")
		return
	}
	sym.Reach("accepted")
	// matching: arbitrary probe string
	l := sym.Choose(sym.Param("probelen", 2) + 1)
	s := sym.Bytes("s", l)
	var got *vOp
	var ok bool
	sym.NoPanic(func() { got, ok = m.Match(s) })
	any := false
	for _, o := range view {
		any = sym.Or(any, vMatches(o.op, s))
	}
	sym.Assert(ok == any, "Match reports a match exactly when some pattern matches the string")
	if ok {
		sym.Reach("matched")
		sym.Assert(vMatches(got.op, s), "the returned pattern's masked bits agree with the string's prefix")
		for _, o := range view {
			if o != got {
				sym.Assert(!vMatches(o.op, s), "the returned pattern is the only one matching")
			}
		}
	}
}
