//go:build verif

//verif:dest internal/zzverif/riscvref/riscvref.go

// Package riscvref is a reference model of one RISC-V instruction step
// (RV32/RV64 I, M, A, Zicsr, fence, fence.i, ecall, ebreak), written from the
// unprivileged ISA manual over sym.BV / sym.Arr, independent of mltwist's
// lifter. The tool's documented approximations are part of it: SC always
// succeeds and writes 0, LR is a plain load, fence/fence.i/ecall/ebreak only
// advance pc. Not modelled (outside every claim built on it): misaligned and
// faulting accesses, accesses straddling the top of the address space, the
// reservation set, side effects of individual CSRs (a CSR is a plain XLEN-bit
// register per 12-bit number).
package riscvref

import "mltwist/internal/zzverif/sym"

// State is the architectural state. X and CSR are arrays of XLEN-bit
// registers indexed by a 64-bit index; M is byte memory with a 64-bit index
// (addresses of RV32 are zero-extended).
type State struct {
	XLEN int
	X    sym.Arr
	CSR  sym.Arr
	M    sym.Arr
	PC   sym.BV
}

type dec struct {
	x                      int
	w                      sym.BV // 32-bit instruction word
	rd, rs1, rs2           sym.BV // 64-bit indices
	immI, immS, immB, immU sym.BV // XLEN
	immJ                   sym.BV
	csr, zimm              sym.BV
	shamt                  sym.BV // XLEN, 5 or 6 significant bits
	shamt5                 sym.BV
}

func decode(word sym.BV, xlen int) dec {
	d := dec{x: xlen, w: word}
	d.rd = word.Extract(11, 7).ZExt(64)
	d.rs1 = word.Extract(19, 15).ZExt(64)
	d.rs2 = word.Extract(24, 20).ZExt(64)
	d.immI = word.Extract(31, 20).SExt(xlen)
	d.immS = word.Extract(31, 25).Concat(word.Extract(11, 7)).SExt(xlen)
	b := word.Extract(31, 31).Concat(word.Extract(7, 7)).Concat(word.Extract(30, 25)).Concat(word.Extract(11, 8)).Concat(sym.BVConst(0, 1))
	d.immB = b.SExt(xlen)
	d.immU = word.Extract(31, 12).Concat(sym.BVConst(0, 12)).SExt(xlen)
	j := word.Extract(31, 31).Concat(word.Extract(19, 12)).Concat(word.Extract(20, 20)).Concat(word.Extract(30, 21)).Concat(sym.BVConst(0, 1))
	d.immJ = j.SExt(xlen)
	d.csr = word.Extract(31, 20).ZExt(64)
	d.zimm = word.Extract(19, 15).ZExt(xlen)
	if xlen == 64 {
		d.shamt = word.Extract(25, 20).ZExt(xlen)
	} else {
		d.shamt = word.Extract(24, 20).ZExt(xlen)
	}
	d.shamt5 = word.Extract(24, 20).ZExt(32)
	return d
}

func (s State) rx(i sym.BV) sym.BV {
	zero := sym.BVConst(0, s.XLEN)
	return sym.BVIte(i.Eq(sym.BVConst(0, 64)), zero, s.X.Select(i))
}

func (s State) wx(i sym.BV, v sym.BV) State {
	s.X = sym.ArrIte(i.Eq(sym.BVConst(0, 64)), s.X, s.X.Store(i, v))
	return s
}

// addr64 turns an XLEN-bit address into the 64-bit memory index.
func addr64(a sym.BV) sym.BV { return a.ZExt(64) }

func (s State) load(a sym.BV, n int) sym.BV {
	base := addr64(a)
	v := s.M.Select(base)
	for i := 1; i < n; i++ {
		v = s.M.Select(base.Add(sym.BVConst(uint64(i), 64))).Concat(v)
	}
	return v
}

func (s State) store(a sym.BV, v sym.BV, n int) State {
	base := addr64(a)
	for i := 0; i < n; i++ {
		s.M = s.M.Store(base.Add(sym.BVConst(uint64(i), 64)), v.Extract(8*i+7, 8*i))
	}
	return s
}

func c(v uint64, w int) sym.BV { return sym.BVConst(v, w) }

func boolBV(b bool, w int) sym.BV { return sym.BVBool(b, w) }

// sdiv / srem with the RISC-V corner cases.
func rvDiv(a, b sym.BV) sym.BV {
	w := a.Width()
	zero, ones := c(0, w), c(0, w).Not()
	min := c(1, w).Shl(c(uint64(w-1), w))
	overflow := sym.And(a.Eq(min), b.Eq(ones))
	return sym.BVIte(b.Eq(zero), ones, sym.BVIte(overflow, min, a.SDiv(b)))
}

func rvRem(a, b sym.BV) sym.BV {
	w := a.Width()
	zero, ones := c(0, w), c(0, w).Not()
	min := c(1, w).Shl(c(uint64(w-1), w))
	overflow := sym.And(a.Eq(min), b.Eq(ones))
	return sym.BVIte(b.Eq(zero), a, sym.BVIte(overflow, zero, a.SRem(b)))
}

func rvDivu(a, b sym.BV) sym.BV {
	w := a.Width()
	return sym.BVIte(b.Eq(c(0, w)), c(0, w).Not(), a.UDiv(b))
}

func rvRemu(a, b sym.BV) sym.BV {
	w := a.Width()
	return sym.BVIte(b.Eq(c(0, w)), a, a.URem(b))
}

// Magnitude forms of signed division / remainder (sign fix-up of the unsigned
// operation on absolute values); equal to rvDiv / rvRem, used when bvudiv is
// abstracted to an uninterpreted function shared with the implementation.
func abs(a sym.BV) sym.BV { return sym.BVIte(a.Slt(c(0, a.Width())), a.Neg(), a) }

func rvDivMag(a, b sym.BV) sym.BV {
	w := a.Width()
	zero := c(0, w)
	q := abs(a).UDiv(abs(b))
	neg := a.Slt(zero) != b.Slt(zero)
	return sym.BVIte(b.Eq(zero), zero.Not(), sym.BVIte(neg, q.Neg(), q))
}

func rvRemMag(a, b sym.BV) sym.BV {
	// dividend = divisor * quotient + remainder (holds for the corner cases too:
	// b = 0 gives a - (-1 * 0) = a, the overflow gives min - (min * -1) = 0)
	return a.Sub(rvDivMag(a, b).Mul(b))
}

func rvRemuMag(a, b sym.BV) sym.BV { return a.Sub(a.UDiv(b).Mul(b)) }

// Forms returns, for operands a and b of equal width, the specification forms
// (bvsdiv/bvsrem/bvurem with the RISC-V corner cases) and the magnitude forms
// of signed division, signed remainder and unsigned remainder, so that a
// harness can prove them equal with fully interpreted operators.
func Forms(a, b sym.BV) (spec, mag [3]sym.BV) {
	return [3]sym.BV{rvDiv(a, b), rvRem(a, b), rvRemu(a, b)}, [3]sym.BV{rvDivMag(a, b), rvRemMag(a, b), rvRemuMag(a, b)}
}

// UseMagnitudeForms selects the magnitude forms above (set by harnesses that
// run with bvmul/bvudiv abstracted).
var UseMagnitudeForms = false

func sdiv(a, b sym.BV) sym.BV {
	if UseMagnitudeForms {
		return rvDivMag(a, b)
	}
	return rvDiv(a, b)
}
func srem(a, b sym.BV) sym.BV {
	if UseMagnitudeForms {
		return rvRemMag(a, b)
	}
	return rvRem(a, b)
}
func urem(a, b sym.BV) sym.BV {
	if UseMagnitudeForms {
		return rvRemuMag(a, b)
	}
	return rvRemu(a, b)
}

// Exec executes the instruction called name (mltwist's table name, compared
// case-insensitively by the caller) encoded by word at s.PC.
// ok=false: unknown name.
func Exec(name string, word sym.BV, s State) (State, bool) {
	x := s.XLEN
	d := decode(word, x)
	pc := s.PC
	next := pc.Add(c(4, x))
	r1, r2 := s.rx(d.rs1), s.rx(d.rs2)
	r1w, r2w := r1.Extract(31, 0), r2.Extract(31, 0)
	sext32 := func(v sym.BV) sym.BV { return v.SExt(x) }
	shMask := uint64(x - 1)
	sh := r2.And(c(shMask, x))
	shw := r2w.And(c(31, 32))
	s.PC = next
	wr := func(v sym.BV) (State, bool) { return s.wx(d.rd, v), true }
	branch := func(cond bool) (State, bool) {
		s.PC = sym.BVIte(cond, pc.Add(d.immB), next)
		return s, true
	}
	loadOp := func(n int, signed bool) (State, bool) {
		v := s.load(r1.Add(d.immI), n)
		if signed {
			return wr(v.SExt(x))
		}
		return wr(v.ZExt(x))
	}
	storeOp := func(n int) (State, bool) { return s.store(r1.Add(d.immS), r2, n), true }
	csrOp := func(f func(old sym.BV) sym.BV) (State, bool) {
		old := s.CSR.Select(d.csr)
		s.CSR = s.CSR.Store(d.csr, f(old))
		return wr(old)
	}
	amo := func(n int, f func(m, r sym.BV) sym.BV) (State, bool) {
		old := s.load(r1, n)
		src := r2.Extract(8*n-1, 0)
		s = s.store(r1, f(old, src), n)
		return s.wx(d.rd, old.SExt(x)), true
	}
	min := func(signed bool) func(m, r sym.BV) sym.BV {
		return func(m, r sym.BV) sym.BV {
			if signed {
				return sym.BVIte(m.Slt(r), m, r)
			}
			return sym.BVIte(m.Ult(r), m, r)
		}
	}
	max := func(signed bool) func(m, r sym.BV) sym.BV {
		return func(m, r sym.BV) sym.BV {
			if signed {
				return sym.BVIte(m.Slt(r), r, m)
			}
			return sym.BVIte(m.Ult(r), r, m)
		}
	}
	amoTable := map[string]func(m, r sym.BV) sym.BV{
		"amoswap": func(m, r sym.BV) sym.BV { return r },
		"amoadd":  func(m, r sym.BV) sym.BV { return m.Add(r) },
		"amoxor":  func(m, r sym.BV) sym.BV { return m.Xor(r) },
		"amoand":  func(m, r sym.BV) sym.BV { return m.And(r) },
		"amoor":   func(m, r sym.BV) sym.BV { return m.Or(r) },
		"amomin":  min(true), "amomax": max(true), "amominu": min(false), "amomaxu": max(false),
	}
	if len(name) > 2 && name[:3] == "amo" {
		n := 4
		if name[len(name)-1] == 'd' {
			n = 8
		}
		if f, ok := amoTable[name[:len(name)-2]]; ok {
			if n == 8 && x != 64 {
				return s, false
			}
			return amo(n, f)
		}
		return s, false
	}
	w64 := x == 64
	switch name {
	case "lui":
		return wr(d.immU)
	case "auipc":
		return wr(pc.Add(d.immU))
	case "jal":
		s.PC = pc.Add(d.immJ)
		return wr(next)
	case "jalr":
		s.PC = r1.Add(d.immI).And(c(1, x).Not())
		return wr(next)
	case "beq":
		return branch(r1.Eq(r2))
	case "bne":
		return branch(!r1.Eq(r2))
	case "blt":
		return branch(r1.Slt(r2))
	case "bge":
		return branch(!r1.Slt(r2))
	case "bltu":
		return branch(r1.Ult(r2))
	case "bgeu":
		return branch(!r1.Ult(r2))
	case "lb":
		return loadOp(1, true)
	case "lh":
		return loadOp(2, true)
	case "lw":
		return loadOp(4, true)
	case "lbu":
		return loadOp(1, false)
	case "lhu":
		return loadOp(2, false)
	case "sb":
		return storeOp(1)
	case "sh":
		return storeOp(2)
	case "sw":
		return storeOp(4)
	case "addi":
		return wr(r1.Add(d.immI))
	case "slti":
		return wr(boolBV(r1.Slt(d.immI), x))
	case "sltiu":
		return wr(boolBV(r1.Ult(d.immI), x))
	case "xori":
		return wr(r1.Xor(d.immI))
	case "ori":
		return wr(r1.Or(d.immI))
	case "andi":
		return wr(r1.And(d.immI))
	case "slli":
		return wr(r1.Shl(d.shamt))
	case "srli":
		return wr(r1.LShr(d.shamt))
	case "srai":
		return wr(r1.AShr(d.shamt))
	case "add":
		return wr(r1.Add(r2))
	case "sub":
		return wr(r1.Sub(r2))
	case "slt":
		return wr(boolBV(r1.Slt(r2), x))
	case "sltu":
		return wr(boolBV(r1.Ult(r2), x))
	case "or":
		return wr(r1.Or(r2))
	case "and":
		return wr(r1.And(r2))
	case "xor":
		return wr(r1.Xor(r2))
	case "sll":
		return wr(r1.Shl(sh))
	case "srl":
		return wr(r1.LShr(sh))
	case "sra":
		return wr(r1.AShr(sh))
	case "fence", "fence.i", "ecall", "ebreak":
		return s, true
	case "csrrw":
		return csrOp(func(old sym.BV) sym.BV { return r1 })
	case "csrrs":
		return csrOp(func(old sym.BV) sym.BV { return old.Or(r1) })
	case "csrrc":
		return csrOp(func(old sym.BV) sym.BV { return old.And(r1.Not()) })
	case "csrrwi":
		return csrOp(func(old sym.BV) sym.BV { return d.zimm })
	case "csrrsi":
		return csrOp(func(old sym.BV) sym.BV { return old.Or(d.zimm) })
	case "csrrci":
		return csrOp(func(old sym.BV) sym.BV { return old.And(d.zimm.Not()) })
	case "mul":
		return wr(r1.Mul(r2))
	case "mulh":
		return wr(r1.SExt(2 * x).Mul(r2.SExt(2 * x)).Extract(2*x-1, x))
	case "mulhu":
		return wr(r1.ZExt(2 * x).Mul(r2.ZExt(2 * x)).Extract(2*x-1, x))
	case "mulhsu":
		return wr(r1.SExt(2 * x).Mul(r2.ZExt(2 * x)).Extract(2*x-1, x))
	case "div":
		return wr(sdiv(r1, r2))
	case "divu":
		return wr(rvDivu(r1, r2))
	case "rem":
		return wr(srem(r1, r2))
	case "remu":
		return wr(urem(r1, r2))
	case "lr.w":
		return wr(s.load(r1, 4).SExt(x))
	case "sc.w":
		s = s.store(r1, r2, 4)
		return s.wx(d.rd, c(0, x)), true
	}
	if !w64 {
		return s, false
	}
	switch name {
	case "ld":
		return loadOp(8, false)
	case "lwu":
		return loadOp(4, false)
	case "sd":
		return storeOp(8)
	case "addiw":
		return wr(sext32(r1w.Add(d.immI.Extract(31, 0))))
	case "slliw":
		return wr(sext32(r1w.Shl(d.shamt5)))
	case "srliw":
		return wr(sext32(r1w.LShr(d.shamt5)))
	case "sraiw":
		return wr(sext32(r1w.AShr(d.shamt5)))
	case "addw":
		return wr(sext32(r1w.Add(r2w)))
	case "subw":
		return wr(sext32(r1w.Sub(r2w)))
	case "sllw":
		return wr(sext32(r1w.Shl(shw)))
	case "srlw":
		return wr(sext32(r1w.LShr(shw)))
	case "sraw":
		return wr(sext32(r1w.AShr(shw)))
	case "mulw":
		return wr(sext32(r1w.Mul(r2w)))
	case "divw":
		return wr(sext32(sdiv(r1w, r2w)))
	case "divuw":
		return wr(sext32(rvDivu(r1w, r2w)))
	case "remw":
		return wr(sext32(srem(r1w, r2w)))
	case "remuw":
		return wr(sext32(urem(r1w, r2w)))
	case "lr.d":
		return wr(s.load(r1, 8))
	case "sc.d":
		s = s.store(r1, r2, 8)
		return s.wx(d.rd, c(0, x)), true
	}
	return s, false
}
