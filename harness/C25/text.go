//go:build verif

//verif:dest internal/riscv/zz_verif_c25.go

package riscv

import (
	"strings"

	"mltwist/internal/zzverif/rvenv"
	"mltwist/internal/zzverif/sym"
	"mltwist/pkg/expr"
	"mltwist/pkg/model"
)

// C25: the text shown for an instruction starts with its mnemonic and names
// every register and immediate that influences its behaviour: two words of one
// instruction at the same address with identical text have identical lifted
// behaviour. Loads and stores show their offset as offset(base).
func VerifC25Text() {
	variant := Variant(sym.Param("variant", 1))
	xlen := 64
	if variant == Variant32 {
		xlen = 32
	}
	types := vAllTypes(variant)
	first, count := sym.Param("first", 0), sym.Param("count", len(types))
	if first+count > len(types) {
		count = len(types) - first
	}
	t := types[first+sym.Choose(count)]
	name := strings.ToLower(t.name)
	w1, w2 := sym.Uint32("word1"), sym.Uint32("word2")
	vAssumeMatches(w1, t)
	vAssumeMatches(w2, t)
	addr := sym.Uint64("addr")
	if xlen == 32 {
		sym.Assume(addr < 1<<32)
	}
	i1 := newInstruction(model.Addr(addr), vWordBytes(w1), t)
	i2 := newInstruction(model.Addr(addr), vWordBytes(w2), t)
	var s1, s2 string
	sym.NoPanic(func() { s1, s2 = i1.String(), i2.String() })
	sym.Reach("prog:" + name)

	// shape of the text
	sk := sym.TextSkeleton(s1)
	sym.Assert(strings.HasPrefix(sk, t.name+" ") || sk == t.name+" ", "the text starts with the mnemonic")
	if !t.instrType.MemOrder() && (t.loadBytes > 0 || t.storeBytes > 0) {
		sym.Assert(sk == t.name+" x#, #(x#)", "loads and stores are written as  op reg, offset(base)")
	}

	// same text => same behaviour
	sym.Assume(sym.SameText(s1, s2))
	var e1, e2 []expr.Effect
	sym.NoPanic(func() { e1, e2 = t.validEffects(i1), t.validEffects(i2) })
	pre := vSymState(xlen, sym.BV64(addr).ZExt(xlen))
	rvenv.SideReset()
	ft := sym.BV64(addr + 4).ZExt(xlen)
	a := rvenv.Apply(e1, pre, ft)
	b := rvenv.Apply(e2, pre, ft)
	px, pc, pm := sym.BVVar("probe.x", 64), sym.BVVar("probe.csr", 64), sym.BVVar("probe.mem", 64)
	sym.Assume(sym.And(px.Ult(sym.BVConst(32, 64)), pc.Ult(sym.BVConst(4096, 64))))
	sym.Assert(a.X.Select(px).Eq(b.X.Select(px)), name+": identical text implies identical effect on the registers")
	sym.Assert(a.CSR.Select(pc).Eq(b.CSR.Select(pc)), name+": identical text implies identical effect on the CSRs")
	sym.Assert(a.M.Select(pm).Eq(b.M.Select(pm)), name+": identical text implies identical effect on memory")
	sym.Assert(a.PC.Eq(b.PC), name+": identical text implies identical control transfer")
	sym.MustFail(w1 == w2, "twin: identical text implies identical words")
}
