//go:build verif

//verif:dest internal/riscv/zz_verif_c21.go

package riscv

import (
	"strings"

	"mltwist/internal/elf"
	"mltwist/internal/parser"
	"mltwist/internal/zzverif/riscvref"
	"mltwist/internal/zzverif/rvenv"
	"mltwist/internal/zzverif/sym"
	"mltwist/pkg/expr"
	"mltwist/pkg/model"
)

// C21 (ii): through the real pipeline (elf image -> parser.Parse with the real
// RISC-V front end) every instruction carries effects equivalent to the front
// end's lifting of the same bytes.
func VerifC21Lifted() {
	types := vAllTypes(Variant64)
	first, count := sym.Param("first", 0), sym.Param("count", len(types))
	t := types[first+sym.Choose(count)]
	name := strings.ToLower(t.name)
	word := sym.Uint32("word")
	vAssumeMatches(word, t)
	addr := sym.SmallBase("addr")
	mem, err := elf.VerifNewMemory([]model.Addr{model.Addr(addr)}, [][]byte{vWordBytes(word)})
	sym.Assert(err == nil, "image accepted")
	if err != nil {
		return
	}
	var got []parser.Instruction
	sym.NoPanic(func() { got, err = parser.Parse(mem, NewParser(Variant64, ExtM, ExtA)) })
	sym.Assert(err == nil && len(got) == 1, "a word of the instruction set parses to one instruction")
	if err != nil || len(got) != 1 {
		return
	}
	sym.Reach("prog:" + name)
	ins := got[0]
	sym.Assert(ins.Addr == model.Addr(addr) && len(ins.Bytes) == 4 && vWordOf(ins.Bytes) == word, "the instruction carries its address and bytes")
	det, ok := ins.Details.(instruction)
	sym.Assert(ok && strings.ToLower(det.instrType.name) == name, "the instruction is decoded as "+name)
	var lifted []expr.Effect
	sym.NoPanic(func() { lifted = t.validEffects(newInstruction(model.Addr(addr), vWordBytes(word), t)) })
	pre := vSymState(64, sym.BV64(addr))
	rvenv.SideReset()
	ft := sym.BV64(addr + 4)
	a := rvenv.Apply(ins.Effects, pre, ft)
	b := rvenv.Apply(lifted, pre, ft)
	rvenv.SideAssert()
	px, pc, pm := sym.BVVar("probe.x", 64), sym.BVVar("probe.csr", 64), sym.BVVar("probe.mem", 64)
	sym.Assume(sym.And(px.Ult(sym.BVConst(32, 64)), pc.Ult(sym.BVConst(4096, 64))))
	sym.Assert(a.X.Select(px).Eq(b.X.Select(px)), name+": parsed effects = lifted effects (registers)")
	sym.Assert(a.CSR.Select(pc).Eq(b.CSR.Select(pc)), name+": parsed effects = lifted effects (CSRs)")
	sym.Assert(a.M.Select(pm).Eq(b.M.Select(pm)), name+": parsed effects = lifted effects (memory)")
	sym.Assert(a.PC.Eq(b.PC), name+": parsed effects = lifted effects (pc)")
	_ = riscvref.State{}
}
