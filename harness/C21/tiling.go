//go:build verif

//verif:dest internal/parser/zz_verif_c21.go

package parser

import (
	"fmt"

	"mltwist/internal/elf"
	"mltwist/internal/zzverif/sym"
	"mltwist/pkg/expr"
	"mltwist/pkg/model"
)

// C21 (i): the walk of parser.Parse over a code image, for any front end.
// The front end here answers nondeterministically: at each position it either
// reports an error or an instruction of length 2 or 4 (an instruction longer
// than the remaining bytes of the block is a truncated word: error).

type vDetails struct{ id int }

func (vDetails) Name() string     { return "ins" }
func (d vDetails) String() string { return fmt.Sprintf("ins%d", d.id) }

type vCall struct {
	addr   model.Addr
	n      int // bytes offered
	length int // 0 = error
}

type vFrontEnd struct {
	calls []vCall
}

func (f *vFrontEnd) Parse(addr model.Addr, b []byte) (model.Instruction, error) {
	id := len(f.calls)
	l := 2 + 2*sym.Choose(2)
	fail := sym.Choose(3) == 0
	if fail || len(b) < l {
		f.calls = append(f.calls, vCall{addr, len(b), 0})
		return model.Instruction{}, fmt.Errorf("undecodable or truncated word at 0x%x", addr)
	}
	f.calls = append(f.calls, vCall{addr, len(b), l})
	// effect carrying a foldable expression: Parse must fold it
	val := expr.NewBinary(expr.Add, expr.NewConst([]byte{b[0]}, 1), expr.One, 1)
	return model.Instruction{
		ByteLen: model.Addr(l),
		Effects: []expr.Effect{expr.NewRegStore(val, "r", 1)},
		Details: vDetails{id},
	}, nil
}

func VerifC21Walk() {
	nb := 1 + sym.Choose(sym.Param("blocks", 2))
	base := sym.SmallBase("base")
	var addrs []model.Addr
	var data [][]byte
	off := uint64(0)
	for i := 0; i < nb; i++ {
		l := 2 * (1 + sym.Choose(sym.Param("halfwords", 3))) // 2..6 bytes
		addrs = append(addrs, model.Addr(base+off))
		data = append(data, sym.Bytes(fmt.Sprintf("blk%d", i), l))
		off += uint64(l) + 2*uint64(sym.Choose(2)) // adjacent or with a gap
	}
	mem, err := elf.VerifNewMemory(addrs, data)
	sym.Assert(err == nil, "non-overlapping code blocks are accepted")
	if err != nil {
		return
	}
	fe := &vFrontEnd{}
	var got []Instruction
	sym.NoPanic(func() { got, err = Parse(mem, fe) })
	// what the walk must have done: positions are visited block by block,
	// advancing by the decoded length, stopping at the first failure
	failed := false
	for _, c := range fe.calls {
		if c.length == 0 {
			failed = true
		}
	}
	sym.Assert((err != nil) == failed, "parsing fails exactly when some instruction position holds an undecodable or truncated word")
	if err != nil {
		sym.Reach("failed")
		return
	}
	sym.Reach("parsed")
	// tiling: block by block, contiguous, in address order, bytes at their address
	k := 0
	for bi := range addrs {
		pos := uint64(addrs[bi])
		end := pos + uint64(len(data[bi]))
		for pos < end {
			sym.Assert(k < len(got), "every position of every block is covered")
			if k >= len(got) {
				return
			}
			ins := got[k]
			sym.Assert(uint64(ins.Addr) == pos, "instructions tile the block contiguously in address order")
			l := int(ins.Len())
			sym.Assert(l == fe.calls[k].length, "an instruction has the length the front end decoded")
			o := int(pos - uint64(addrs[bi]))
			same := l <= len(data[bi])-o
			for j := 0; same && j < l; j++ {
				same = true
			}
			if l <= len(data[bi])-o {
				eq := true
				for j := 0; j < l; j++ {
					eq = sym.And(eq, ins.Bytes[j] == data[bi][o+j])
				}
				sym.Assert(eq, "an instruction carries the bytes at its address")
			} else {
				sym.Assert(false, "an instruction does not reach behind its block")
			}
			// effects: the front end's effects, constant-folded
			ok := len(ins.Effects) == 1
			if ok {
				rs, isRS := ins.Effects[0].(expr.RegStore)
				ok = isRS && rs.Key() == "r" && rs.Width() == 1
				if ok {
					c, isC := rs.Value().(expr.Const)
					ok = isC && c.Width() == 1
					if ok {
						sym.Assert(c.Bytes()[0] == data[bi][o]+1, "effects are the front end's effects, constant-folded")
					}
				}
			}
			sym.Assert(ok, "effects keep their kind, key and width")
			pos += uint64(l)
			k++
		}
		sym.Assert(pos == end, "instructions end exactly at the block end")
	}
	sym.Assert(k == len(got), "no instruction outside the code blocks")
	if len(got) >= 3 {
		sym.Reach("three-instructions")
	}
}
