//go:build verif

//verif:dest internal/consoleui/emulate/zz_verif_c30.go

package emulate

import (
	"mltwist/internal/zzverif/sym"
	"mltwist/pkg/expr"
)

// C30 (second half): a value typed at an emulator prompt in any base accepted
// by the prompt, with optional minus sign, becomes the typed integer modulo
// 2^(8w) as a w-byte constant; empty input, underscores and malformed numbers
// are rejected.

func vDigit30(c byte) (uint64, bool) {
	switch {
	case c >= '0' && c <= '9':
		return uint64(c - '0'), true
	case c >= 'a' && c <= 'z':
		return uint64(c-'a') + 10, true
	case c >= 'A' && c <= 'Z':
		return uint64(c-'A') + 10, true
	}
	return 0, false
}

// vRefValue is the specification of the prompt: sign, base prefix, digits.
// Numbers of the bounded length never overflow 64 bits.
func vRefValue(s string) (v uint64, neg bool, valid bool) {
	if len(s) == 0 {
		return 0, false, false
	}
	for i := 0; i < len(s); i++ {
		if s[i] == '_' {
			return 0, false, false
		}
	}
	if s[0] == '-' {
		neg = true
		s = s[1:]
	}
	base := uint64(10)
	digits := s
	switch {
	case len(s) >= 2 && s[0] == '0' && (s[1] == 'x' || s[1] == 'X'):
		base, digits = 16, s[2:]
	case len(s) >= 2 && s[0] == '0' && (s[1] == 'b' || s[1] == 'B'):
		base, digits = 2, s[2:]
	case len(s) >= 2 && s[0] == '0' && (s[1] == 'o' || s[1] == 'O'):
		base, digits = 8, s[2:]
	case len(s) >= 2 && s[0] == '0':
		base, digits = 8, s[1:]
	}
	if len(digits) == 0 {
		return 0, neg, false
	}
	for i := 0; i < len(digits); i++ {
		d, ok := vDigit30(digits[i])
		if !ok || d >= base {
			return 0, neg, false
		}
		v = v*base + d
	}
	return v, neg, true
}

func vLine30() string {
	var s string
	switch sym.Param("family", 0) {
	case 0: // arbitrary ASCII bytes
		s = sym.String("line", sym.Choose(sym.Param("maxlen", 3)+1))
	default: // sign + prefix + symbolic digits
		signs := []string{"", "-"}
		prefixes := []string{"", "0x", "0X", "0b", "0B", "0o", "0O", "0"}
		p := signs[sym.Choose(len(signs))] + prefixes[sym.Choose(len(prefixes))]
		s = p + sym.String("digits", sym.Choose(sym.Param("maxdigits", 3)+1))
	}
	for i := 0; i < len(s); i++ {
		sym.Assume(s[i] < 0x80 && s[i] != '\n' && s[i] != '\r')
	}
	// "+" is accepted by the prompt's number parser; the property speaks of an
	// optional minus sign only, so a leading plus is left outside the claim.
	if len(s) > 0 {
		sym.Assume(s[0] != '+')
	}
	return s
}

func VerifC30ReadValue() {
	s := vLine30()
	ws := []expr.Width{1, 2, 4, 8}
	w := ws[sym.Choose(len(ws))]
	sym.SetInputLines([]string{s})
	var c expr.Const
	var err error
	sym.NoPanic(func() { c, err = readValue(w) })
	want, neg, valid := vRefValue(s)
	sym.Assert((err == nil) == valid, "the prompt accepts exactly well-formed numbers (no empty input, underscore or malformed digits)")
	if err != nil || !valid {
		sym.Reach("rejected")
		return
	}
	sym.Reach("accepted")
	if neg {
		sym.Reach("negative")
		want = -want
	}
	sym.Assert(c.Width() == w, "the constant has the prompt's width")
	bs := c.Bytes()
	sym.Assert(len(bs) == int(w), "the constant has w bytes")
	for i := 0; i < len(bs) && i < int(w); i++ {
		sym.Assert(bs[i] == byte(want>>(8*uint(i))), "the constant is the typed integer modulo 2^(8w), little-endian")
	}
}

// VerifC30ReadValueRetry: the prompt loop (readValueNoErr) keeps asking until a
// well-formed number is typed and returns that number.
func VerifC30ReadValueRetry() {
	bad := vLine30()
	_, _, valid := vRefValue(bad)
	sym.Assume(!valid)
	// after an error message the UI waits for ENTER, then asks again
	sym.SetInputLines([]string{bad, "", "0x1234"})
	sym.ResetOutput()
	var c expr.Const
	sym.NoPanic(func() { c = readValueNoErr("? ", 2) })
	sym.RestoreOutput()
	bs := c.Bytes()
	sym.Assert(len(bs) == 2 && bs[0] == 0x34 && bs[1] == 0x12, "after a rejected line the prompt returns the next well-formed number")
	sym.Reach("retried")
}
