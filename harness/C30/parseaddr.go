//go:build verif

//verif:dest internal/consoleui/internal/memview/zz_verif_c30.go

package memview

import (
	"mltwist/internal/zzverif/sym"
	"mltwist/pkg/model"
)

// C30 (first half): a memory-view address argument written in decimal,
// 0x/0X hexadecimal, 0b/0B binary or 0-prefixed octal denotes exactly that
// 64-bit address; any other argument is answered with an error, never a crash.

func vDigit(c byte) (uint64, bool) {
	switch {
	case c >= '0' && c <= '9':
		return uint64(c - '0'), true
	case c >= 'a' && c <= 'f':
		return uint64(c-'a') + 10, true
	case c >= 'A' && c <= 'F':
		return uint64(c-'A') + 10, true
	}
	return 0, false
}

// vRefAddr is the specification: the denoted number, or not a number.
func vRefAddr(s string) (uint64, bool) {
	base := uint64(10)
	digits := s
	switch {
	case len(s) >= 2 && s[0] == '0' && (s[1] == 'x' || s[1] == 'X'):
		base, digits = 16, s[2:]
	case len(s) >= 2 && s[0] == '0' && (s[1] == 'b' || s[1] == 'B'):
		base, digits = 2, s[2:]
	case len(s) >= 2 && s[0] == '0':
		base, digits = 8, s[1:]
	}
	if len(digits) == 0 {
		return 0, false
	}
	var v uint64
	for i := 0; i < len(digits); i++ {
		d, ok := vDigit(digits[i])
		if !ok || d >= base {
			return 0, false
		}
		v = v*base + d // no overflow within the bounded lengths
	}
	return v, true
}

func VerifC30ParseAddr() {
	var s string
	switch sym.Param("family", 0) {
	case 0: // arbitrary bytes
		s = sym.String("arg", sym.Choose(sym.Param("maxlen", 3)+1))
	default: // prefix + symbolic digits
		prefixes := []string{"", "0x", "0X", "0b", "0B", "0"}
		p := prefixes[sym.Choose(len(prefixes))]
		s = p + sym.String("digits", sym.Choose(sym.Param("maxdigits", 4)+1))
	}
	var res interface{}
	var err error
	sym.NoPanic(func() { res, err = parseAddr(s) })
	want, valid := vRefAddr(s)
	sym.Assert((err == nil) == valid, "parseAddr succeeds exactly for decimal, 0x/0X, 0b/0B and 0-prefixed octal numbers")
	if err == nil && valid {
		sym.Reach("parsed")
		a, ok := res.(model.Addr)
		sym.Assert(ok, "parseAddr returns an address")
		sym.Assert(uint64(a) == want, "parseAddr returns exactly the denoted address")
	} else {
		sym.Reach("rejected")
	}
}
