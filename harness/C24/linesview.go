//go:build verif

//verif:dest internal/consoleui/internal/lines/zz_verif_c24.go

package lines

import (
	"mltwist/internal/zzverif/rvprog"
	"mltwist/internal/zzverif/sym"
)

// C24 for the listing view: for every cursor position and every granted height
// from the declared minimum to the declared maximum, rendering never crashes
// and never writes more lines than granted.
func VerifC24LinesView() {
	words := rvprog.ThreeBlocks
	if sym.Choose(2) == 1 {
		words = rvprog.TwoBlocks
	}
	code, err := rvprog.Build(words, rvprog.Base)
	sym.Assert(err == nil, "program builds")
	if err != nil {
		return
	}
	v := NewView(code)
	cur := sym.Int("cursor")
	sym.Assume(sym.And(cur >= 0, cur < v.Lines.Len()))
	sym.Assert(v.Cursor.Set(cur) == nil, "cursor inside the listing")
	lo, hi := v.MinLines(), v.MaxLines()
	sym.Assert(lo <= hi, "declared minimum does not exceed the declared maximum")
	n := lo + sym.Choose(hi-lo+1)
	sym.ResetOutput()
	var perr error
	sym.NoPanic(func() { perr = v.Print(n) })
	printed := sym.OutputLines()
	sym.RestoreOutput()
	sym.Assert(perr == nil, "rendering succeeds")
	sym.Assert(printed <= n, "the listing view never writes more lines than granted")
	if cur+3 >= v.Lines.Len() {
		sym.Reach("cursor-near-end")
	}
}
