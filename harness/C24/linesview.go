//go:build verif

//verif:dest internal/consoleui/internal/lines/zz_verif_c24.go

package lines

import (
	"mltwist/internal/zzverif/rvprog"
	"mltwist/internal/zzverif/sym"
)

// C24 for the listing view: for every cursor position and every granted height
// from the declared minimum to three lines above the declared maximum, rendering never crashes
// and never writes more lines than granted.
func VerifC24LinesView() {
	var words []uint32
	switch sym.Choose(4) {
	case 0:
		words = rvprog.ThreeBlocks
	case 1:
		words = rvprog.TwoBlocks
	case 2:
		words = rvprog.ThreeBlocks[:1] // a listing shorter than the declared minimum height
	default:
		words = rvprog.ThreeBlocks[:2]
	}
	code, err := rvprog.Build(words, rvprog.Base)
	sym.Assert(err == nil, "program builds")
	if err != nil {
		return
	}
	v := NewView(code)
	cur := sym.Int("cursor")
	sym.Assume(sym.And(cur >= 0, cur < v.Lines.Len()))
	sym.Assert(v.Cursor.Set(cur) == nil, "cursor inside the listing")
	// every height from the declared minimum up to a few lines above the
	// declared maximum (a caller may grant more than the view can use)
	lo, hi := v.MinLines(), v.MaxLines()
	if hi < lo {
		hi = lo
		sym.Reach("listing-shorter-than-minimum")
	}
	n := lo + sym.Choose(hi-lo+1+3)
	sym.ResetOutput()
	var perr error
	sym.NoPanic(func() { perr = v.Print(n) })
	printed := sym.OutputLines()
	sym.RestoreOutput()
	sym.Assert(perr == nil, "rendering succeeds")
	sym.Assert(printed <= n, "the listing view never writes more lines than granted")
	if cur+3 >= v.Lines.Len() {
		sym.Reach("cursor-near-end")
	}
}
