//go:build verif

//verif:dest internal/consoleui/emulate/zz_verif_c24.go

package emulate

import (
	"fmt"

	"mltwist/internal/riscv"
	"mltwist/internal/state"
	"mltwist/internal/state/memory"
	"mltwist/internal/zzverif/rvprog"
	"mltwist/internal/zzverif/sym"
	"mltwist/pkg/expr"
	"mltwist/pkg/model"
)

func vState(nregs int) *state.State {
	st := &state.State{Regs: state.NewRegMap(), Mems: memory.MemMap{riscv.MemoryKey: memory.NewSparse()}}
	for i := 0; i < nregs; i++ {
		st.Regs.Store(expr.Key(fmt.Sprintf("x%d", i+1)), expr.NewConst(sym.Bytes(fmt.Sprintf("x%d", i+1), 8), 8), 8)
	}
	return st
}

// VerifC24EmulateView: the emulator screen (listing + register view) fits the
// granted height; the register view, which declares a fixed height, writes
// exactly that many lines.
func VerifC24EmulateView() {
	code, err := rvprog.Build(rvprog.ThreeBlocks, rvprog.Base)
	sym.Assert(err == nil, "program builds")
	if err != nil {
		return
	}
	nregs := sym.Choose(sym.Param("maxregs", 5) + 1)
	st := vState(nregs)
	ips := []model.Addr{rvprog.Base, rvprog.Base + 0x10, rvprog.Base + 0x20}
	m, err := New(code, ips[sym.Choose(len(ips))], st)
	sym.Assert(err == nil, "emulation mode builds")
	if err != nil {
		return
	}
	// the register view alone
	rv := newRegView(st)
	sym.Assert(rv.MinLines() == rv.MaxLines(), "the register view declares a fixed height")
	sym.ResetOutput()
	var perr error
	sym.NoPanic(func() { perr = rv.Print(rv.MinLines()) })
	printed := sym.OutputLines()
	sym.RestoreOutput()
	sym.Assert(perr == nil, "register view renders")
	sym.Assert(printed == rv.MinLines(), fmt.Sprintf("the register view writes exactly its declared height (%d registers besides the instruction pointer)", nregs))

	// the whole screen
	v := m.View()
	lo, hi := v.MinLines(), v.MaxLines()
	if hi < 0 || hi > lo+sym.Param("span", 12) {
		hi = lo + sym.Param("span", 12)
	}
	n := lo + sym.Choose(hi-lo+1)
	sym.ResetOutput()
	sym.NoPanic(func() { perr = v.Print(n) })
	printed = sym.OutputLines()
	sym.RestoreOutput()
	sym.Assert(perr == nil, "the emulator screen renders at any height of at least its minimum")
	sym.Assert(printed <= n, "the emulator screen never writes more lines than granted")
}
