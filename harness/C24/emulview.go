//go:build verif

//verif:dest internal/consoleui/emulate/zz_verif_c24.go

package emulate

import (
	"fmt"

	"mltwist/internal/riscv"
	"mltwist/internal/state"
	"mltwist/internal/state/memory"
	"mltwist/internal/zzverif/rvprog"
	"mltwist/internal/zzverif/sym"
	"mltwist/pkg/expr"
	"mltwist/pkg/model"
)

func vState(nregs int) *state.State {
	st := &state.State{Regs: state.NewRegMap(), Mems: memory.MemMap{riscv.MemoryKey: memory.NewSparse()}}
	for i := 0; i < nregs; i++ {
		st.Regs.Store(expr.Key(fmt.Sprintf("x%d", i+1)), expr.NewConst(sym.Bytes(fmt.Sprintf("x%d", i+1), 8), 8), 8)
	}
	return st
}

// VerifC24EmulateView: the emulator screen (listing + register view) fits the
// granted height; the register view, which declares a fixed height, writes
// exactly that many lines.
func VerifC24EmulateView() {
	code, err := rvprog.Build(rvprog.ThreeBlocks, rvprog.Base)
	sym.Assert(err == nil, "program builds")
	if err != nil {
		return
	}
	nregs := sym.Choose(sym.Param("maxregs", 5) + 1)
	st := vState(nregs)
	// optionally one register of 32 bytes: its row does not fit 80 columns
	wide := nregs > 0 && sym.Choose(2) == 1
	if wide {
		st.Regs.Store("x1", expr.NewConst(sym.Bytes("x1w", 32), 32), 32)
		sym.Reach("wide-register")
	}
	ips := []model.Addr{rvprog.Base, rvprog.Base + 0x10, rvprog.Base + 0x20}
	m, err := New(code, ips[sym.Choose(len(ips))], st)
	sym.Assert(err == nil, "emulation mode builds")
	if err != nil {
		return
	}
	// the register view alone
	rv := newRegView(st)
	sym.Assert(rv.MinLines() == rv.MaxLines(), "the register view declares a fixed height")
	sym.ResetOutput()
	var perr error
	sym.NoPanic(func() { perr = rv.Print(rv.MinLines()) })
	printed := sym.OutputLines()
	sym.RestoreOutput()
	// a row that does not fit the screen width is refused with an error (not a
	// crash); a view that renders writes exactly its declared height, one that
	// refuses never more
	if !wide {
		sym.Assert(perr == nil, "register view renders")
	}
	if perr == nil {
		sym.Assert(printed == rv.MinLines(), fmt.Sprintf("the register view writes exactly its declared height (%d registers besides the instruction pointer)", nregs))
	}
	sym.Assert(printed <= rv.MinLines(), "the register view never writes more lines than its declared height")

	// the whole screen
	v := m.View()
	lo, hi := v.MinLines(), v.MaxLines()
	if hi < 0 || hi > lo+sym.Param("span", 12) {
		hi = lo + sym.Param("span", 12)
	}
	n := lo + sym.Choose(hi-lo+1)
	sym.ResetOutput()
	sym.NoPanic(func() { perr = v.Print(n) })
	printed = sym.OutputLines()
	sym.RestoreOutput()
	if !wide {
		sym.Assert(perr == nil, "the emulator screen renders at any height of at least its minimum")
	}
	sym.Assert(printed <= n, "the emulator screen never writes more lines than granted")
}
