//go:build verif

//verif:dest internal/exprtransform/zz_verif_c10.go

package exprtransform

import (
	"fmt"

	"mltwist/internal/zzverif/irsem"
	"mltwist/internal/zzverif/sym"
	"mltwist/pkg/expr"
)

// C10: folding one operation on constants gives the exact result of the
// documented width rules, for every operand value and every combination of
// operand widths and operation width in the bound.

func vC10Widths(set int) []expr.Width {
	switch set {
	case 0:
		return []expr.Width{1, 2, 3}
	case 4:
		return []expr.Width{1, 2, 3, 8}
	case 1:
		return []expr.Width{1, 2, 3, 4, 8, 9}
	case 2:
		return []expr.Width{1, 2, 3, 4, 5, 7, 8, 9, 16, 17}
	default:
		return []expr.Width{1, 8, 32, 255}
	}
}

func VerifC10Binary() {
	ws := vC10Widths(sym.Param("wset", 0))
	op := vAllOps[sym.Choose(len(vAllOps))]
	w1, w2, w := ws[sym.Choose(len(ws))], ws[sym.Choose(len(ws))], ws[sym.Choose(len(ws))]
	c1 := expr.NewConst(sym.Bytes("a", int(w1)), w1)
	c2 := expr.NewConst(sym.Bytes("b", int(w2)), w2)
	e := expr.NewBinary(op, c1, c2, w)
	var r expr.Expr
	sym.NoPanic(func() { r = ConstFold(e) })
	sym.Reach(fmt.Sprintf("op%d", op))
	c, ok := r.(expr.Const)
	sym.Assert(ok, "an operation on constants folds to a constant")
	if !ok {
		return
	}
	sym.Assert(c.Width() == w, "the folded constant has the operation width")
	if c.Width() != w {
		return
	}
	ref := irsem.Eval(e, nil)
	sym.Assert(irsem.ConstBV(c).Eq(ref), "the folded constant is the exact result of the documented width rules")
	sym.MustFail(irsem.ConstBV(c).Eq(irsem.Adjust(irsem.ConstBV(c1), w)), "twin: result equals the first operand")
}

func VerifC10Less() {
	ws := vC10Widths(sym.Param("wset", 0))
	w1, w2, w := ws[sym.Choose(len(ws))], ws[sym.Choose(len(ws))], ws[sym.Choose(len(ws))]
	wt := ws[sym.Choose(len(ws))]
	c1 := expr.NewConst(sym.Bytes("a", int(w1)), w1)
	c2 := expr.NewConst(sym.Bytes("b", int(w2)), w2)
	t := expr.NewConst(sym.Bytes("t", int(wt)), wt)
	f := expr.NewConst(sym.Bytes("f", int(wt)), wt)
	e := expr.NewLess(c1, c2, t, f, w)
	var r expr.Expr
	sym.NoPanic(func() { r = ConstFold(e) })
	c, ok := r.(expr.Const)
	sym.Assert(ok, "a comparison of constants with constant arms folds to a constant")
	if !ok {
		return
	}
	sym.Assert(c.Width() == w, "the folded constant has the comparison width")
	if c.Width() != w {
		return
	}
	sym.Assert(irsem.ConstBV(c).Eq(irsem.Eval(e, nil)), "unsigned comparison at the operation width selects the correct arm")
	sym.MustFail(irsem.ConstBV(c).Eq(irsem.Adjust(irsem.ConstBV(t), w)), "twin: always the true arm")
}
