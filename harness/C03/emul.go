//go:build verif

//verif:dest internal/emulator/zz_verif_c03.go

package emulator

import (
	"fmt"

	"mltwist/internal/deps"
	"mltwist/internal/elf"
	"mltwist/internal/exprtransform"
	"mltwist/internal/parser"
	"mltwist/internal/riscv"
	"mltwist/internal/state"
	"mltwist/internal/state/memory"
	"mltwist/internal/zzverif/riscvref"
	"mltwist/internal/zzverif/sym"
	"mltwist/pkg/expr"
	"mltwist/pkg/model"
)

// C03 / C04: the emulator, with the memory layering the tool uses (program
// image under a sparse layer), agrees step by step with the RISC-V reference
// model, reports what it read and wrote, fails exactly when the instruction
// pointer is not at an instruction start, never crashes, and asks the state
// provider only for state it has never known, once.

func vR(f7, rs2, rs1, f3, rd, op uint32) uint32 { return f7<<25 | rs2<<20 | rs1<<15 | f3<<12 | rd<<7 | op }
func vI(imm, rs1, f3, rd, op uint32) uint32     { return (imm&0xfff)<<20 | rs1<<15 | f3<<12 | rd<<7 | op }
func vS(imm, rs2, rs1, f3, op uint32) uint32 {
	return (imm>>5&0x7f)<<25 | rs2<<20 | rs1<<15 | f3<<12 | (imm&0x1f)<<7 | op
}
func vB(imm, rs2, rs1, f3 uint32) uint32 {
	return (imm>>12&1)<<31 | (imm>>5&0x3f)<<25 | rs2<<20 | rs1<<15 | f3<<12 | (imm>>1&0xf)<<8 | (imm>>11&1)<<7 | 0x63
}
func vJ(imm, rd uint32) uint32 {
	return (imm>>20&1)<<31 | (imm>>1&0x3ff)<<21 | (imm>>11&1)<<20 | (imm>>12&0xff)<<12 | rd<<7 | 0x6f
}

type vIns struct {
	name string
	word uint32
}

type vProgram struct {
	name  string
	code  []vIns
	steps int
}

const (
	vCodeBase = 0x1000
	vDataBase = 0x2000
	vDataLen  = 8
)

// x1 = vDataBase (known), x2 = value (known or supplied), x3 unknown.
var vPrograms = []vProgram{
	{"store-then-narrow-load-inside", []vIns{{"sd", vS(0, 2, 1, 3, 0x23)}, {"lw", vI(4, 1, 2, 3, 0x03)}}, 2},
	{"load-spanning-image-and-sparse", []vIns{{"sw", vS(4, 2, 1, 2, 0x23)}, {"ld", vI(0, 1, 3, 3, 0x03)}}, 2},
	{"load-over-three-fragments", []vIns{{"sb", vS(1, 2, 1, 0, 0x23)}, {"sh", vS(2, 2, 1, 1, 0x23)}, {"lw", vI(0, 1, 2, 3, 0x03)}}, 3},
	{"branch", []vIns{{"addi", vI(1, 2, 0, 2, 0x13)}, {"beq", vB(8, 3, 2, 0)}, {"addi", vI(1, 0, 0, 3, 0x13)}, {"addi", vI(2, 3, 0, 3, 0x13)}}, 3},
	{"jal", []vIns{{"jal", vJ(8, 3)}, {"addi", vI(1, 0, 0, 2, 0x13)}, {"add", vR(0, 3, 2, 0, 2, 0x33)}}, 2},
	{"jalr-symbolic-target", []vIns{{"jalr", vI(0, 2, 0, 0, 0x67)}, {"addi", vI(1, 0, 0, 3, 0x13)}}, 2},
	{"amo-then-load", []vIns{{"amoadd.w", vR(0, 2, 1, 2, 3, 0x2f)}, {"lw", vI(0, 1, 2, 2, 0x03)}}, 2},
	{"load-unknown-memory-twice", []vIns{{"lw", vI(8, 1, 2, 3, 0x03)}, {"lh", vI(10, 1, 1, 2, 0x03)}, {"lw", vI(6, 1, 2, 3, 0x03)}}, 3},
	{"store-into-unknown-then-wider-load", []vIns{{"sb", vS(10, 2, 1, 0, 0x23)}, {"lwu", vI(8, 1, 6, 3, 0x03)}, {"lbu", vI(11, 1, 4, 2, 0x03)}}, 3},
	{"load-straddling-image-end-then-load-behind", []vIns{{"ld", vI(4, 1, 3, 3, 0x03)}, {"lwu", vI(12, 1, 6, 2, 0x03)}}, 2},
	{"load-straddling-image-start-then-load-inside", []vIns{{"lwu", vI(0xffe, 1, 6, 3, 0x03)}, {"lhu", vI(0, 1, 5, 2, 0x03)}}, 2},
	{"loop-back-edge", []vIns{{"addi", vI(0xfff, 2, 0, 2, 0x13)}, {"bne", vB(0x1ffc, 0, 2, 1)}}, 4},
	{"sub-word-ops", []vIns{{"addiw", vI(0x7ff, 2, 0, 3, 0x1b)}, {"sraiw", 0x4000501b | 3<<15 | 3<<7 | 5<<20}, {"sltu", vR(0, 2, 3, 3, 3, 0x33)}}, 3},
	{"mul-div", []vIns{{"mul", vR(1, 2, 2, 0, 3, 0x33)}, {"divu", vR(1, 2, 3, 5, 3, 0x33)}}, 2},
}

// vProv is the state provider: it supplies fresh symbolic values, ties the
// reference machine's initial state to them, and logs the requests (C04).
type vProv struct {
	ref        *riscvref.State
	knownRegs  map[expr.Key]bool
	knownBytes map[uint64]bool
	nReg, nMem int
}

func vRegIndex(key expr.Key) (byte, uint64, bool) {
	if key == expr.IPKey {
		return 'p', 0, true
	}
	p, n, ok := sym.KeyIndex(string(key))
	switch {
	case ok && p == "x":
		return 'x', n, true
	case ok && p == "csr":
		return 'c', n, true
	}
	return '?', 0, false
}

func (p *vProv) Register(key expr.Key, w expr.Width) expr.Const {
	sym.Assert(!p.knownRegs[key], "the provider is asked for a register only if the emulator has never known it (and at most once)")
	p.knownRegs[key] = true
	p.nReg++
	c := expr.NewConst(sym.Bytes(fmt.Sprintf("supplied.%s", key), int(w)), w)
	file, idx, ok := vRegIndex(key)
	sym.Assert(ok && file != 'p', "the provider is asked for x<N> or csr<N> registers only")
	v := sym.BVBytes(c.Bytes()).ZExt(64) // a narrower first read defines the register as the zero-extended value
	switch file {
	case 'x':
		sym.Assume(p.ref.X.Select(sym.BVConst(idx, 64)).Eq(v))
	case 'c':
		sym.Assume(p.ref.CSR.Select(sym.BVConst(idx, 64)).Eq(v))
	}
	return c
}

func (p *vProv) Memory(key expr.Key, addr model.Addr, w expr.Width) expr.Const {
	sym.Assert(key == riscv.MemoryKey, "the provider is asked for the RISC-V address space only")
	p.nMem++
	bs := sym.Bytes(fmt.Sprintf("supplied.mem.%x", uint64(addr)), int(w))
	for i := 0; i < int(w); i++ {
		a := uint64(addr) + uint64(i)
		sym.Assert(!p.knownBytes[a], "the provider is asked for a memory byte only if the emulator has never known it (and at most once)")
		p.knownBytes[a] = true
		sym.Assume(p.ref.M.Select(sym.BVConst(a, 64)).Eq(sym.BV8(bs[i])))
	}
	return expr.NewConst(bs, w)
}

func vWordsBytes(code []vIns) []byte {
	var bs []byte
	for _, i := range code {
		w := i.word
		bs = append(bs, byte(w), byte(w>>8), byte(w>>16), byte(w>>24))
	}
	return bs
}

func VerifC03Emulate() {
	progs := vPrograms
	first, count := sym.Param("first", 0), sym.Param("count", len(progs))
	prog := progs[first+sym.Choose(count)]
	sym.Reach("prog:" + prog.name)

	// code model through the real pipeline
	codeBytes := vWordsBytes(prog.code)
	codeImg, err := elf.VerifNewMemory([]model.Addr{vCodeBase}, [][]byte{codeBytes})
	sym.Assert(err == nil, "code image")
	seq, err := parser.Parse(codeImg, riscv.NewParser(riscv.Variant64, riscv.ExtM, riscv.ExtA))
	sym.Assert(err == nil, "program parses")
	code, err := deps.NewCode(vCodeBase, seq)
	sym.Assert(err == nil, "code model")
	if err != nil {
		return
	}

	// reference machine: arbitrary state, tied to what the emulator knows
	ref := riscvref.State{XLEN: 64, X: sym.NewArr("X", 64), CSR: sym.NewArr("CSR", 64), M: sym.NewArr("M", 8), PC: sym.BVConst(vCodeBase, 64)}
	sym.Assume(ref.X.Select(sym.BVConst(0, 64)).Eq(sym.BVConst(0, 64)))
	prov := &vProv{ref: &ref, knownRegs: map[expr.Key]bool{}, knownBytes: map[uint64]bool{}}

	// program image (code + data block) under a sparse layer, as cmd/mltwist does
	data := sym.Bytes("image.data", vDataLen)
	img, err := elf.VerifNewMemory([]model.Addr{vCodeBase, vDataBase}, [][]byte{codeBytes, data})
	sym.Assert(err == nil, "program image")
	blocks := make([]memory.ByteBlock, len(img.Blocks))
	for i, b := range img.Blocks {
		blocks[i] = b
	}
	byteMem, err := memory.NewBytes(blocks)
	sym.Assert(err == nil, "byte memory")
	if err != nil {
		return
	}
	for i, b := range codeBytes {
		prov.knownBytes[vCodeBase+uint64(i)] = true
		sym.Assume(ref.M.Select(sym.BVConst(vCodeBase+uint64(i), 64)).Eq(sym.BVConst(uint64(b), 8)))
	}
	for i := 0; i < vDataLen; i++ {
		prov.knownBytes[vDataBase+uint64(i)] = true
		sym.Assume(ref.M.Select(sym.BVConst(vDataBase+uint64(i), 64)).Eq(sym.BV8(data[i])))
	}
	st := &state.State{Regs: state.NewRegMap(), Mems: memory.MemMap{riscv.MemoryKey: memory.NewOverlay(byteMem, memory.NewSparse())}}

	// initial registers: x1 = data base (known); x2 known or left to the provider
	st.Regs.Store("x1", expr.ConstFromUint[uint64](vDataBase), 8)
	prov.knownRegs["x1"] = true
	sym.Assume(ref.X.Select(sym.BVConst(1, 64)).Eq(sym.BVConst(vDataBase, 64)))
	if sym.Choose(2) == 0 {
		x2 := sym.Bytes("init.x2", 8)
		st.Regs.Store("x2", expr.NewConst(x2, 8), 8)
		prov.knownRegs["x2"] = true
		sym.Assume(ref.X.Select(sym.BVConst(2, 64)).Eq(sym.BVBytes(x2)))
	}

	var emu *Emulator
	sym.NoPanic(func() { emu = New(code, vCodeBase, prov, st) })
	prov.knownRegs[expr.IPKey] = true

	for s := 0; s < prog.steps; s++ {
		ip := uint64(emu.MustIP())
		sym.Assert(sym.BV64(ip).Eq(ref.PC), "instruction pointer agrees with the reference before the step")
		// is ip the start of a decoded instruction?
		idx := -1
		for i := range prog.code {
			if ip == vCodeBase+uint64(4*i) { // forks when ip is symbolic
				idx = i
			}
		}
		var step *Step
		var serr error
		sym.NoPanic(func() { step, serr = emu.Step() })
		sym.Assert((serr != nil) == (idx < 0), "a step fails exactly when the instruction pointer is not at the start of a decoded instruction")
		if serr != nil || idx < 0 {
			sym.Reach("step-failed")
			return
		}
		pre := ref
		var ok bool
		ref, ok = riscvref.Exec(prog.code[idx].name, sym.BVConst(uint64(prog.code[idx].word), 32), ref)
		sym.Assert(ok, "reference knows "+prog.code[idx].name)
		prov.ref = &ref

		// the step record: values read are pre-state values, values written post-state values
		for key, c := range step.RegLoads {
			file, n, _ := vRegIndex(key)
			want := pre.PC
			switch file {
			case 'x':
				want = pre.X.Select(sym.BVConst(n, 64))
			case 'c':
				want = pre.CSR.Select(sym.BVConst(n, 64))
			}
			sym.Assert(sym.BVBytes(c.Bytes()).Eq(want.ZExt(8*len(c.Bytes()))), "a recorded register read carries the value the register had")
		}
		for key, c := range step.RegStores {
			prov.knownRegs[key] = true
			file, n, _ := vRegIndex(key)
			want := ref.PC
			switch file {
			case 'x':
				want = ref.X.Select(sym.BVConst(n, 64))
			case 'c':
				want = ref.CSR.Select(sym.BVConst(n, 64))
			}
			sym.Assert(sym.BVBytes(c.Bytes()).ZExt(64).Eq(want), "a recorded register write carries the value written")
		}
		for _, a := range step.MemLoads {
			for i, b := range a.Value.Bytes() {
				sym.Assert(sym.BV8(b).Eq(pre.M.Select(sym.BVConst(uint64(a.Addr)+uint64(i), 64))), "a recorded memory read carries the bytes memory held")
			}
		}
		for _, a := range step.MemStores {
			for i, b := range a.Value.Bytes() {
				prov.knownBytes[uint64(a.Addr)+uint64(i)] = true
				sym.Assert(sym.BV8(b).Eq(ref.M.Select(sym.BVConst(uint64(a.Addr)+uint64(i), 64))), "a recorded memory write carries the bytes written")
			}
		}
		// whole visible state after the step
		for key, e := range st.Regs.Values() {
			c, isConst := e.(expr.Const)
			sym.Assert(isConst, "emulator registers hold constants")
			if !isConst {
				continue
			}
			file, n, ok := vRegIndex(key)
			sym.Assert(ok, "register key "+string(key))
			want := ref.PC
			switch file {
			case 'x':
				want = ref.X.Select(sym.BVConst(n, 64))
			case 'c':
				want = ref.CSR.Select(sym.BVConst(n, 64))
			}
			sym.Assert(sym.BVBytes(c.Bytes()).ZExt(64).Eq(want), fmt.Sprintf("register %s agrees with the reference after step %d of %s", key, s+1, prog.name))
		}
		for a := uint64(vDataBase - 2); a < vDataBase+vDataLen+8; a++ {
			e, ok := st.Mems.Load(riscv.MemoryKey, model.Addr(a), 1)
			if !ok {
				continue
			}
			c, isConst := exprtransform.ConstFold(e).(expr.Const)
			sym.Assert(isConst, "a single known byte folds to a constant")
			if isConst {
				sym.Assert(sym.BV8(c.Bytes()[0]).Eq(ref.M.Select(sym.BVConst(a, 64))), fmt.Sprintf("memory byte agrees with the reference after step %d of %s", s+1, prog.name))
			}
		}
	}
	sym.Reach("all-steps-done")
}
