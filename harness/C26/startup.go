//go:build verif

//verif:dest cmd/mltwist/zz_verif_c26.go

package main

import (
	delf "debug/elf"
	"os"

	"mltwist/internal/elf"
	"mltwist/internal/zzverif/rvprog"
	"mltwist/internal/zzverif/sym"
)

// C26: start-up is total. For every argument list and every file - taken from
// debug/elf's parsed representation onward (under the engine debug/elf and the
// OS are a stub boundary; natively the same description is written out as a
// real ELF file) - run() either enters the interactive UI or returns an error,
// and never crashes while loading, decoding or building the code model.

const vBase = 0x10000

// instruction words the code section is made of
func vWord(i int) (w uint32, decodable bool) {
	switch sym.Choose(8) {
	case 0:
		return rvprog.I(5, 0, 0, 1, 0x13), true // addi x1,x0,5
	case 1:
		return rvprog.I(0, 1, 3, 2, 0x03), true // ld x2,0(x1)
	case 2:
		return rvprog.S(0, 3, 2, 3, 0x23), true // sd x3,0(x2)
	case 3:
		return rvprog.J(8, 0), true // jal x0,+8 (the target may lie outside the code)
	case 4:
		return rvprog.J(-4&0x1fffff, 0), true // jal x0,-4
	case 5:
		return 0x00000073, true // ecall
	case 6:
		return 0xffffffff, false // not an instruction
	default:
		// register-immediate operation with symbolic registers, function bits and immediate
		v := sym.Uint32("word" + string(rune('0'+i)))
		sym.Assume(v&0x7f == 0x13)
		return v, false // decodability unknown
	}
}

func VerifC26Startup() {
	family := sym.Param("family", 0)
	nargs := 2
	typ := uint16(2)
	openFails := false
	entryOff := uint64(0)
	nwords := 1
	truncated := false
	segKind := 0
	var code []byte
	word := func(w uint32) { code = append(code, byte(w), byte(w>>8), byte(w>>16), byte(w>>24)) }
	switch family {
	case 0: // argument vector and file level; the code is one good instruction
		nargs = 1 + sym.Choose(3)
		typ = []uint16{0, 1, 2, 3, 4}[sym.Choose(5)]
		openFails = sym.Choose(2) == 1
		for i := 0; i < 4; i++ {
			word(rvprog.I(uint32(i), 0, 0, 5, 0x13))
		}
	case 1: // code level
		typ = []uint16{2, 3}[sym.Choose(2)]
		nwords = 1 + sym.Choose(sym.Param("maxwords", 2))
		for i := 0; i < nwords; i++ {
			w, _ := vWord(i)
			word(w)
		}
		for i := 0; i < 3; i++ {
			word(rvprog.I(uint32(i), 0, 0, 5, 0x13)) // padding: addi x5,x0,i
		}
		truncated = sym.Choose(3) == 2
		if truncated {
			code = code[:len(code)-2]
		}
		entryOff = []uint64{0, 4, 2, 0xffffffffffff0000}[sym.Choose(4)]
	case 3: // program-memory level
		for i := 0; i < 4; i++ {
			word(rvprog.I(uint32(i), 0, 0, 5, 0x13))
		}
		segKind = sym.Choose(4)
	default: // a well-formed executable, then a console session
		code = rvprog.Bytes(rvprog.ThreeBlocks)
		nwords = len(rvprog.ThreeBlocks)
	}
	secs := []elf.VerifSec{{Type: uint32(delf.SHT_PROGBITS), Flags: uint64(delf.SHF_ALLOC | delf.SHF_EXECINSTR), Addr: vBase, Data: code}}
	var progs []elf.VerifProg
	data := sym.Bytes("seg", 8)
	switch segKind {
	case 0:
		progs = append(progs, elf.VerifProg{Type: uint32(delf.PT_LOAD), Vaddr: 0x20000, Data: data, Memsz: 8})
	case 1:
		progs = append(progs, elf.VerifProg{Type: uint32(delf.PT_LOAD), Vaddr: 0x20000, Data: data, Memsz: 16})
	case 2:
		progs = append(progs, elf.VerifProg{Type: uint32(delf.PT_LOAD), Vaddr: 0x20000, Data: data, Memsz: 4}) // invalid
	default: // no loadable segment
	}
	path, cleanup := elf.VerifPrepareELF(typ, vBase+entryOff, secs, progs, openFails)
	defer cleanup()
	args := []string{"mltwist", path, "extra"}
	os.Args = args[:nargs]

	// console session once the UI is entered
	menu := []string{"e", "entrypoint", "s", "d 1", "mem memory", "move 1 2", "q", "a 0x20000"}
	var script []string
	for i := 0; i < sym.Param("lines", 2); i++ {
		script = append(script, menu[sym.Choose(len(menu))])
	}
	script = append(script, "0", "0", "0", "0", "0", "0", "q", "", "q", "", "q", "", "q", "", "q", "")
	sym.SetInputLines(script)
	sym.SetTermHeight(24)
	sym.ResetOutput()
	var err error
	sym.NoPanic(func() { err = run() })
	printed := sym.OutputLines()
	sym.RestoreOutput()

	// (A listing shorter than the listing view's declared minimum of 5 lines
	// makes view.Print fail with "not enough lines to render" and run() return
	// that error after the screen was cleared: an orderly error exit, which the
	// property allows; all code here has at least 4 instructions.)
	if err == nil {
		sym.Assert(printed > 0, "a start-up that reports no error has entered the interactive UI")
	}
	if err != nil {
		sym.Observe("error", err.Error())
		sym.Reach("error-exit")
		sym.Assert(len(err.Error()) > 0, "an error exit carries a message")
	} else {
		sym.Reach("ui-entered")
	}
	bad := nargs != 2 || openFails || (typ != 2 && typ != 3) || truncated || entryOff == 2 || entryOff > 4 || segKind >= 2 ||
		false
	if bad {
		sym.Assert(err != nil, "wrong argument count, unreadable file, unsupported file type, truncated or misaligned code, an entry point outside the instructions or an invalid/missing program memory are reported as errors")
	}
	if family == 2 {
		sym.Assert(err == nil, "a well-formed executable enters the UI")
	}
}
