//go:build verif

//verif:dest internal/consoleui/zz_verif_c22.go

package consoleui

import (
	"fmt"
	"math"
	"strconv"

	"mltwist/internal/consoleui/internal/view"
	"mltwist/internal/zzverif/sym"
)

// C22 (a): whatever the spacing, number of arguments or numeric range of an
// input line, parsing it never crashes: it yields a command to execute or an
// error message.

type vNullView struct{}

func (vNullView) MinLines() int    { return 1 }
func (vNullView) MaxLines() int    { return 1 }
func (vNullView) Print(int) error { return nil }

type vMode struct{ executed *int }

func vNum(s string) (interface{}, error) {
	v, err := strconv.Atoi(s)
	if err != nil {
		return nil, fmt.Errorf("invalid integer %q: %w", s, err)
	}
	if v < 0 || v > math.MaxInt {
		return nil, fmt.Errorf("out of range")
	}
	return v, nil
}

func (m vMode) Commands() []Command {
	return []Command{
		{Keys: []string{"d"}, Args: []ArgParseFunc{vNum}, Action: func(*UI, ...interface{}) error { *m.executed++; return nil }},
		{Keys: []string{"m"}, Args: []ArgParseFunc{vNum, vNum}, Action: func(*UI, ...interface{}) error { *m.executed++; return nil }},
		{Keys: []string{"e"}, Action: func(*UI, ...interface{}) error { *m.executed++; return nil }},
		{Keys: []string{"f"}, Args: []ArgParseFunc{func(s string) (interface{}, error) { return s, nil }},
			OptionalArgs: func(s []string) ([]interface{}, error) { return []interface{}{len(s)}, nil },
			Action:       func(*UI, ...interface{}) error { *m.executed++; return nil }},
	}
}
func (vMode) View() view.View { return vNullView{} }

func VerifC22ParseLine() {
	n := 0
	ui, err := New(vMode{&n})
	sym.Assert(err == nil, "UI builds")
	if err != nil {
		return
	}
	var line string
	switch sym.Param("family", 0) {
	case 0: // arbitrary short lines
		line = sym.String("line", 1+sym.Choose(sym.Param("maxlen", 3)))
	default: // <key><spaces><arg>...: spacing and argument count vary
		keys := []string{"d", "m", "e", "f", "q", "h", "x"}
		line = keys[sym.Choose(len(keys))]
		nargs := sym.Choose(4)
		for i := 0; i < nargs; i++ {
			line += []string{" ", "  "}[sym.Choose(2)]
			line += sym.String(fmt.Sprintf("arg%d", i), 1+sym.Choose(2))
		}
		if sym.Choose(2) == 1 {
			line += " "
		}
	}
	for i := 0; i < len(line); i++ {
		sym.Assume(line[i] < 0x80)
	}
	if len(line) == 0 {
		return
	}
	var cmd Command
	var args []interface{}
	sym.NoPanic(func() { cmd, args, err = ui.parseCommand(line) })
	if err != nil {
		sym.Reach("answered-with-error")
		return
	}
	sym.Reach("command-parsed")
	sym.Assert(cmd.Action != nil && len(args) >= len(cmd.Args), "a parsed command has an action and all its mandatory arguments")
}
