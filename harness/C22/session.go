//go:build verif

//verif:dest internal/consoleui/emulate/zz_verif_c22.go

package emulate

import (
	"mltwist/internal/consoleui"
	"mltwist/internal/zzverif/rvprog"
	"mltwist/internal/zzverif/sym"
)

// C22 (d): a whole console session in emulator mode through the real UI.Run
// loop: screens are rendered, every line is read from the (scripted) line
// reader, emulator prompts take their answers from the same stream, the
// memory command pushes a memory-view mode whose commands interpret the next
// lines, and quit unwinds the mode stack. The session must end by the quits
// at the end of the script: no crash and no internal error.

var vSessionMenu = []string{
	"s", " f ", "step 3", "mems", "mem memory", "m nosuch", "m", "rmod x1", "rmod x9", "rmod",
	"q", "h", "help x", "a 0x10", "addr 99999999999999999999", "d 1", "up 3", "g 0",
}

// vNarrowLoads: sub-word loads from never-known memory, so that stepping asks
// for 1-, 2- and 4-byte values at the emulator prompt.
var vNarrowLoads = []uint32{
	rvprog.I(0x100, 0, 0, 5, 0x03), // lb x5,0x100(x0)
	rvprog.I(0x200, 0, 1, 6, 0x03), // lh x6,0x200(x0)
	rvprog.I(0x300, 0, 2, 7, 0x03), // lw x7,0x300(x0)
	rvprog.I(1, 5, 0, 5, 0x13),     // addi x5,x5,1
}

// prompt answers: in range, negative below the signed minimum of a narrow
// width, above the unsigned range, malformed
var vPromptAnswers = []string{"0", "-200", "-1", "0x1ffff", "-0x80000001", "zz", ""}

func VerifC22EmulatorSession() {
	if sym.Param("narrow", 0) == 1 {
		vNarrowPromptSession()
		return
	}
	code, err := rvprog.Build(rvprog.ThreeBlocks, rvprog.Base)
	sym.Assert(err == nil, "program builds")
	if err != nil {
		return
	}
	st := vState(sym.Choose(2)) // x1 known or not
	m, err := New(code, rvprog.Base, st)
	sym.Assert(err == nil, "emulation mode builds")
	if err != nil {
		return
	}
	ui, err := consoleui.New(m)
	sym.Assert(err == nil, "the UI accepts the emulator mode")
	if err != nil {
		return
	}
	var script []string
	k := sym.Param("lines", 2)
	for i := 0; i < k; i++ {
		var c int
		if f := sym.Param("first", -1); i == 0 && f >= 0 {
			c = f // fixed first line (e.g. the memory command, so that the next line runs in the pushed mode)
		} else {
			c = sym.Choose(len(vSessionMenu) + 1)
		}
		if c == len(vSessionMenu) {
			l := sym.String("line", 2)
			sym.Assume(l[0] < 0x80 && l[0] != '\n' && l[0] != '\r' && l[1] < 0x80 && l[1] != '\n' && l[1] != '\r')
			script = append(script, l)
		} else {
			script = append(script, vSessionMenu[c])
		}
	}
	// answers for pending prompts / ENTER confirmations, then quit every mode
	script = append(script, "0", "0", "0", "0", "0", "0", "q", "", "q", "", "q", "", "q", "")
	sym.SetInputLines(script)
	sym.SetTermHeight(20 + sym.Choose(2)*17)
	sym.ResetOutput()
	var rerr error
	sym.NoPanic(func() { rerr = ui.Run() })
	printed := sym.OutputLines()
	sym.RestoreOutput()
	sym.Assert(rerr == nil, "the session ends by quitting, without an internal error")
	sym.Assert(printed > 0, "screens were rendered")
	sym.Reach("session-ended")
}

// vNarrowPromptSession: step over sub-word loads of unknown memory; every
// prompt is answered with any of the prepared answers (a rejected answer is
// followed by ENTER and asked again).
func vNarrowPromptSession() {
	code, err := rvprog.Build(vNarrowLoads, rvprog.Base)
	sym.Assert(err == nil, "program builds")
	if err != nil {
		return
	}
	m, err := New(code, rvprog.Base, vState(0))
	sym.Assert(err == nil, "emulation mode builds")
	if err != nil {
		return
	}
	ui, err := consoleui.New(m)
	sym.Assert(err == nil, "the UI accepts the emulator mode")
	if err != nil {
		return
	}
	var script []string
	steps := sym.Param("steps", 2)
	for i := 0; i < steps; i++ {
		script = append(script, "s", vPromptAnswers[sym.Choose(len(vPromptAnswers))])
	}
	script = append(script, "0", "0", "0", "0", "0", "0", "q", "", "q", "", "q", "")
	sym.SetInputLines(script)
	sym.SetTermHeight(24)
	sym.ResetOutput()
	var rerr error
	sym.NoPanic(func() { rerr = ui.Run() })
	sym.RestoreOutput()
	sym.Assert(rerr == nil, "the session ends by quitting, without an internal error")
	sym.Reach("session-ended")
}
