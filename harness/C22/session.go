//go:build verif

//verif:dest internal/consoleui/emulate/zz_verif_c22.go

package emulate

import (
	"mltwist/internal/consoleui"
	"mltwist/internal/zzverif/rvprog"
	"mltwist/internal/zzverif/sym"
)

// C22 (d): a whole console session in emulator mode through the real UI.Run
// loop: screens are rendered, every line is read from the (scripted) line
// reader, emulator prompts take their answers from the same stream, the
// memory command pushes a memory-view mode whose commands interpret the next
// lines, and quit unwinds the mode stack. The session must end by the quits
// at the end of the script: no crash and no internal error.

var vSessionMenu = []string{
	"s", " f ", "step 3", "mems", "mem memory", "m nosuch", "m", "rmod x1", "rmod x9", "rmod",
	"q", "h", "help x", "a 0x10", "addr 99999999999999999999", "d 1", "up 3", "g 0",
}

func VerifC22EmulatorSession() {
	code, err := rvprog.Build(rvprog.ThreeBlocks, rvprog.Base)
	sym.Assert(err == nil, "program builds")
	if err != nil {
		return
	}
	st := vState(sym.Choose(2)) // x1 known or not
	m, err := New(code, rvprog.Base, st)
	sym.Assert(err == nil, "emulation mode builds")
	if err != nil {
		return
	}
	ui, err := consoleui.New(m)
	sym.Assert(err == nil, "the UI accepts the emulator mode")
	if err != nil {
		return
	}
	var script []string
	k := sym.Param("lines", 2)
	for i := 0; i < k; i++ {
		var c int
		if f := sym.Param("first", -1); i == 0 && f >= 0 {
			c = f // fixed first line (e.g. the memory command, so that the next line runs in the pushed mode)
		} else {
			c = sym.Choose(len(vSessionMenu) + 1)
		}
		if c == len(vSessionMenu) {
			l := sym.String("line", 2)
			sym.Assume(l[0] < 0x80 && l[0] != '\n' && l[0] != '\r' && l[1] < 0x80 && l[1] != '\n' && l[1] != '\r')
			script = append(script, l)
		} else {
			script = append(script, vSessionMenu[c])
		}
	}
	// answers for pending prompts / ENTER confirmations, then quit every mode
	script = append(script, "0", "0", "0", "0", "0", "0", "q", "", "q", "", "q", "", "q", "")
	sym.SetInputLines(script)
	sym.SetTermHeight(20 + sym.Choose(2)*17)
	sym.ResetOutput()
	var rerr error
	sym.NoPanic(func() { rerr = ui.Run() })
	printed := sym.OutputLines()
	sym.RestoreOutput()
	sym.Assert(rerr == nil, "the session ends by quitting, without an internal error")
	sym.Assert(printed > 0, "screens were rendered")
	sym.Reach("session-ended")
}
